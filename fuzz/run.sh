#!/bin/bash
# fuzz/run.sh <C05|C11> <seed> <stats-json-out>
# Coverage-guided campaign (libFuzzer, ASan) with the harness oracle in-target. Artifacts are never reported
# directly: each one is replayed through `./check <id> --replay` (both builds) and only then counts.
# exit 0 = nothing reproduced, 1 = a reproduced violation was printed, 2 = infrastructure trouble.
ID="$1"; SEED="${2:-1}"; OUT="$3"
ROOT="$(cd "$(dirname "$0")/.." && pwd)"
T=$(echo "$ID" | tr 'A-Z' 'a-z')
cd "$ROOT/fuzz" || exit 2
export CARGO_NET_OFFLINE=true
[ -f Cargo.lock ] || cp "$ROOT/harness/Cargo.lock" Cargo.lock
BUDGET="${VERIF_FUZZ_SECONDS:-300}"
JOBS="${VERIF_FUZZ_JOBS:-16}"
LOG="$ROOT/.scratch/fuzz-$ID.log"; mkdir -p "$ROOT/.scratch"
if ! cargo +nightly fuzz build --fuzz-dir "$ROOT/fuzz" "$T" >"$LOG" 2>&1; then
  echo "INCONCLUSIVE: fuzz build failed (see $LOG)" >&2
  echo "{\"ran\": false, \"reason\": \"fuzz build failed\"}" > "$OUT"; exit 2
fi
CORPUS="$ROOT/fuzz/corpus-run/$T"; ART="$ROOT/fuzz/artifacts/$T/"
rm -rf "$CORPUS" "$ART"; mkdir -p "$CORPUS" "$ART"
# seed corpus: the repository's test files and valid files produced by the harness generators
cp /repo/resources/test/*.* "$CORPUS/" 2>/dev/null
"$ROOT/harness/target-checked/release/verif" corpus "$ID" "$CORPUS" --seed "$SEED" >>"$LOG" 2>&1
NSEED=$(ls "$CORPUS" | wc -l)
MAXLEN=4096; [ "$ID" = C11 ] && MAXLEN=2048
cargo +nightly fuzz run --fuzz-dir "$ROOT/fuzz" "$T" "$CORPUS" -- -seed="$SEED" -max_total_time="$BUDGET" -fork="$JOBS" -len_control=0 -max_len=$MAXLEN \
   -artifact_prefix="$ART" -ignore_crashes=1 -ignore_ooms=1 -ignore_timeouts=1 -rss_limit_mb=4096 -timeout=20 -print_final_stats=1 >>"$LOG" 2>&1
RC=$?
EXECS=$(grep -oE '^#[0-9]+' "$LOG" | tr -d '#' | sort -n | tail -1)
COV=$(grep -oE 'cov: [0-9]+' "$LOG" | tail -1 | awk '{print $2}')
NART=$(ls "$ART" 2>/dev/null | wc -l)
REPRO=0; INCONC=0
for f in "$ART"*; do
  [ -f "$f" ] || continue
  H=$(basename "$f")
  CASE="$ROOT/replays/fuzz-$ID-$H.json"; mkdir -p "$ROOT/replays"
  python3 - "$f" "$CASE" "$ID" <<'PY'
import sys, json
data = list(open(sys.argv[1], 'rb').read())
pid = sys.argv[3]
case = {"Raw": data} if pid == "C11" else {"source": {"Random": data}, "mutations": []}
json.dump({"property": pid, "origin": "libFuzzer artifact " + sys.argv[1], "case": case}, open(sys.argv[2], 'w'))
PY
  "$ROOT/check" "$ID" --replay "$CASE" > "$ROOT/.scratch/fuzz-replay.out" 2>&1; r=$?
  if [ $r -eq 1 ]; then REPRO=$((REPRO+1)); grep -E "^(replay|VIOLATION|KNOWN-FINDING)" "$ROOT/.scratch/fuzz-replay.out"; else INCONC=$((INCONC+1)); rm -f "$CASE"; fi
done
cat > "$OUT" <<JSON
{"ran": true, "engine": "libFuzzer (cargo-fuzz, ASan)", "target": "$T", "seed": $SEED, "wall_budget_s": $BUDGET, "jobs": $JOBS, "seed_corpus_files": $NSEED,
 "executions_reported": ${EXECS:-0}, "coverage_edges_last_report": ${COV:-0}, "artifacts": $NART, "artifacts_reproduced_by_harness_oracle": $REPRO, "artifacts_not_reproduced": $INCONC, "libfuzzer_exit": $RC}
JSON
[ $REPRO -gt 0 ] && exit 1
exit 0
