//! libFuzzer target for C05: the input bytes go to every archive-family entry point with the
//! same oracle as the harness (totality, allocation bound, over-declaration => Err, re-serialization).
#![no_main]
use libfuzzer_sys::fuzz_target;
use mila_verif::engine::prop::{Cx, Prop};
use mila_verif::props::c05::{Case, Source, C05};

#[global_allocator]
static GLOBAL: mila_verif::engine::alloc::Monitor = mila_verif::engine::alloc::Monitor;

fuzz_target!(|data: &[u8]| {
    static INIT: std::sync::Once = std::sync::Once::new();
    INIT.call_once(|| {
        mila_verif::engine::alloc::set_hard_cap(1 << 30);
    });
    let case = Case { source: Source::Random(data.to_vec()), mutations: vec![] };
    let mut cx = Cx::new();
    cx.passthrough_panics = true; // let libFuzzer see the crash with its own stack trace
    C05::run(&case, &mut cx);
    if let Some(f) = cx.failure {
        panic!("C05 oracle violated: [{}] {}", f.signature(), f.detail);
    }
});
