//! libFuzzer target for C11: the input bytes are fed to every decompression entry point; the
//! reference reader classifies them and fixes the expected outcome (three-way oracle of the harness).
#![no_main]
use libfuzzer_sys::fuzz_target;
use mila_verif::engine::prop::{Cx, Prop};
use mila_verif::props::c11::{Case, C11};

fuzz_target!(|data: &[u8]| {
    // streams that declare an output above 1 MiB are skipped: the harness bounds generated output the same way
    if data.len() >= 4 {
        let inner = if data[0] == 0x13 && data.len() >= 8 { &data[4..] } else { data };
        let mut declared = inner[1] as usize | (inner[2] as usize) << 8 | (inner[3] as usize) << 16;
        if inner[0] == 0x11 && declared == 0 && inner.len() >= 8 {
            declared = u32::from_le_bytes([inner[4], inner[5], inner[6], inner[7]]) as usize;
        }
        if declared > (1 << 20) {
            return;
        }
    }
    let case = Case::Raw(data.to_vec());
    let mut cx = Cx::new();
    cx.passthrough_panics = true;
    C11::run(&case, &mut cx);
    if let Some(f) = cx.failure {
        panic!("C11 oracle violated: [{}] {}", f.signature(), f.detail);
    }
});
