//! The parent process: spawns worker processes (one per shard and build), watches them,
//! turns abnormal worker deaths into violations (breadcrumb re-run), merges the summaries,
//! writes the evidence file and decides the exit code.
use super::known::KnownFindings;
use super::prop::{Failure, Tier};
use super::worker::{FoundFailure, ShardSummary};
use super::DynProp;
use std::collections::{BTreeMap, HashSet};
use std::io::Read;
use std::process::{Child, Command, Stdio};
use std::time::{Duration, Instant};

pub struct ParentArgs {
    pub root: String,
    pub tier: Tier,
    pub seed: u64,
    pub nshards: u64,
    pub bin_checked: String,
    pub bin_wrapping: String,
    pub extra_evidence: Option<String>,
}

struct Job {
    profile: &'static str,
    shard: u64,
    out: String,
    digests: Option<String>,
}

enum JobResult {
    Done(ShardSummary),
    Crashed { status: String, stderr_tail: String },
    TimedOut,
}

fn spawn(bin: &str, prop: &dyn DynProp, a: &ParentArgs, j: &Job, breadcrumb: Option<&str>) -> std::io::Result<Child> {
    let mut c = Command::new(bin);
    c.arg("worker")
        .arg(prop.id())
        .arg("--tier")
        .arg(a.tier.name())
        .arg("--seed")
        .arg(a.seed.to_string())
        .arg("--shard")
        .arg(j.shard.to_string())
        .arg("--nshards")
        .arg(a.nshards.to_string())
        .arg("--root")
        .arg(&a.root)
        .arg("--out")
        .arg(&j.out)
        .arg("--hash-file")
        .arg(format!("{}.nth", j.out));
    if let Some(d) = &j.digests {
        c.arg("--digests").arg(d);
    }
    if let Some(b) = breadcrumb {
        c.arg("--breadcrumb").arg(b);
    }
    c.stdin(Stdio::null()).stdout(Stdio::null()).stderr(Stdio::piped());
    c.env("RUST_BACKTRACE", "0");
    c.spawn()
}

fn wait(mut child: Child, out: &str, limit: Duration) -> JobResult {
    let t0 = Instant::now();
    // drain stderr in a thread so a chatty worker cannot block
    let mut stderr = child.stderr.take();
    let h = std::thread::spawn(move || {
        let mut s = Vec::new();
        if let Some(e) = &mut stderr {
            let _ = e.read_to_end(&mut s);
        }
        let s = String::from_utf8_lossy(&s).to_string();
        let n = s.len();
        if n > 1500 {
            let mut cut = n - 1500;
            while !s.is_char_boundary(cut) {
                cut += 1;
            }
            s[cut..].to_string()
        } else {
            s
        }
    });
    loop {
        match child.try_wait() {
            Ok(Some(status)) => {
                let tail = h.join().unwrap_or_default();
                if status.success() {
                    if let Ok(t) = std::fs::read_to_string(out) {
                        if let Ok(s) = serde_json::from_str::<ShardSummary>(&t) {
                            return JobResult::Done(s);
                        }
                    }
                    return JobResult::Crashed { status: "exit 0 without a summary".into(), stderr_tail: tail };
                }
                return JobResult::Crashed { status: format!("{status}"), stderr_tail: tail };
            }
            Ok(None) => {
                if t0.elapsed() > limit {
                    let _ = child.kill();
                    let _ = child.wait();
                    return JobResult::TimedOut;
                }
                std::thread::sleep(Duration::from_millis(20));
            }
            Err(e) => {
                return JobResult::Crashed { status: format!("wait failed: {e}"), stderr_tail: String::new() };
            }
        }
    }
}

pub fn scratch_dir(root: &str) -> String {
    let base = if std::path::Path::new("/dev/shm").is_dir() { "/dev/shm".to_string() } else { format!("{root}/.scratch") };
    let d = format!("{base}/mila-verif-{}", std::process::id());
    let _ = std::fs::create_dir_all(&d);
    d
}

fn write_replay(root: &str, id: &str, f: &FoundFailure) -> String {
    let dir = format!("{root}/replays");
    let _ = std::fs::create_dir_all(&dir);
    let body = serde_json::json!({
        "property": id,
        "profile": f.profile,
        "stage": f.stage,
        "shrunk": f.shrunk,
        "failure": f.failure,
        "case": f.case,
    });
    let text = serde_json::to_string_pretty(&body).unwrap();
    let h = super::prop::fnv(serde_json::to_string(&f.case).unwrap_or_default().as_bytes());
    let path = format!("{dir}/{id}-{:012x}.json", h & 0xFFFF_FFFF_FFFF);
    let _ = std::fs::write(&path, text);
    path
}

/// returns the process exit code
pub fn run(prop: &dyn DynProp, a: ParentArgs) -> i32 {
    let t0 = Instant::now();
    let id = prop.id();
    let scratch = scratch_dir(&a.root);
    let known = KnownFindings::load(&format!("{}/known_findings.json", a.root));
    let mut profiles: Vec<(&'static str, &str)> = vec![("checked", a.bin_checked.as_str())];
    if prop.both_builds() {
        profiles.push(("wrapping", a.bin_wrapping.as_str()));
    }
    let mut jobs: Vec<Job> = Vec::new();
    for (p, _) in &profiles {
        for s in 0..a.nshards {
            jobs.push(Job {
                profile: p,
                shard: s,
                out: format!("{scratch}/{id}-{p}-{s}.json"),
                digests: if prop.cross_build() { Some(format!("{scratch}/{id}-{p}-{s}.dig")) } else { None },
            });
        }
    }
    let limit = Duration::from_secs(a.tier.pick(900, 6 * 3600));
    let maxpar = std::thread::available_parallelism().map(|n| n.get()).unwrap_or(8);
    let bin_of = |p: &str| profiles.iter().find(|(n, _)| *n == p).map(|(_, b)| b.to_string()).unwrap();

    let mut summaries: Vec<ShardSummary> = Vec::new();
    let mut failures: Vec<FoundFailure> = Vec::new();
    let mut infra: Vec<String> = Vec::new();

    // simple pool: threads pulling from a shared index
    let results: Vec<(usize, JobResult)> = {
        let next = std::sync::atomic::AtomicUsize::new(0);
        let out = std::sync::Mutex::new(Vec::new());
        std::thread::scope(|sc| {
            for _ in 0..maxpar.min(jobs.len()) {
                sc.spawn(|| loop {
                    let i = next.fetch_add(1, std::sync::atomic::Ordering::SeqCst);
                    if i >= jobs.len() {
                        break;
                    }
                    let j = &jobs[i];
                    let r = match spawn(&bin_of(j.profile), prop, &a, j, None) {
                        Ok(c) => wait(c, &j.out, limit),
                        Err(e) => JobResult::Crashed { status: format!("spawn failed: {e}"), stderr_tail: String::new() },
                    };
                    out.lock().unwrap().push((i, r));
                });
            }
        });
        out.into_inner().unwrap()
    };

    for (i, r) in results {
        let j = &jobs[i];
        match r {
            JobResult::Done(s) => {
                failures.extend(s.failures.iter().cloned());
                summaries.push(s);
            }
            JobResult::TimedOut => infra.push(format!(
                "worker {id} profile={} shard={} exceeded the watchdog ({} s): inconclusive",
                j.profile,
                j.shard,
                limit.as_secs()
            )),
            JobResult::Crashed { status, stderr_tail } => {
                // abnormal death: re-run this shard with breadcrumbs to find the case
                let crumb = format!("{scratch}/{id}-{}-{}.crumb", j.profile, j.shard);
                let _ = std::fs::remove_file(&crumb);
                let again = match spawn(&bin_of(j.profile), prop, &a, j, Some(&crumb)) {
                    Ok(c) => wait(c, &j.out, limit),
                    Err(e) => JobResult::Crashed { status: format!("spawn failed: {e}"), stderr_tail: String::new() },
                };
                match again {
                    JobResult::Done(s) => {
                        // did not die the second time: nondeterministic death => inconclusive
                        infra.push(format!(
                            "worker {id} profile={} shard={} died ({status}) but survived the breadcrumb re-run; stderr: {stderr_tail}",
                            j.profile, j.shard
                        ));
                        failures.extend(s.failures.iter().cloned());
                        summaries.push(s);
                    }
                    JobResult::TimedOut => infra.push(format!("worker {id} shard {} timed out in breadcrumb mode", j.shard)),
                    JobResult::Crashed { status: st2, stderr_tail: tail2 } => {
                        let case = std::fs::read_to_string(&crumb).ok().and_then(|t| serde_json::from_str::<serde_json::Value>(&t).ok());
                        match case {
                            Some(case) => {
                                let refused = tail2.lines().rev().find(|l| l.starts_with("VERIF-ALLOC-REFUSED")).map(|s| s.to_string());
                                let (kind, clause) = match &refused {
                                    Some(_) => ("alloc", "huge-allocation-refused".to_string()),
                                    None => ("abort", format!("process-death {}", st2.replace(char::is_numeric, "#"))),
                                };
                                // shrink by re-spawning replay for each candidate (bounded)
                                let case = shrink_crash(prop, &bin_of(j.profile), &a.root, &scratch, case);
                                failures.push(FoundFailure {
                                    failure: Failure {
                                        kind: kind.into(),
                                        clause,
                                        detail: format!("worker process died ({st2}) while executing this case; stderr tail: {}", tail2.trim()),
                                    },
                                    case,
                                    stage: "crash".into(),
                                    profile: j.profile.into(),
                                    shrunk: false,
                                });
                            }
                            None => infra.push(format!(
                                "worker {id} profile={} shard={} died ({st2}) before executing any case; stderr: {tail2}",
                                j.profile, j.shard
                            )),
                        }
                    }
                }
            }
        }
    }

    // cross-build digest comparison: the same generated cases ran in both builds; a differing line is examined by
    // re-executing that one case several times in fresh processes of each build. Only a stable, build-dependent
    // difference is a violation; an outcome that varies within one build is nondeterminism, not build dependence.
    let mut cross_mismatch = 0u64;
    let mut cross_notes: Vec<String> = Vec::new();
    if prop.cross_build() && prop.both_builds() && failures.is_empty() {
        for s in 0..a.nshards {
            let fa = std::fs::read_to_string(format!("{scratch}/{id}-checked-{s}.dig")).unwrap_or_default();
            let fb = std::fs::read_to_string(format!("{scratch}/{id}-wrapping-{s}.dig")).unwrap_or_default();
            if fa == fb {
                continue;
            }
            let first = fa.lines().zip(fb.lines()).position(|(x, y)| x != y).unwrap_or(0);
            let hash = fa.lines().nth(first).and_then(|l| l.split(' ').next()).unwrap_or("").to_string();
            cross_mismatch += 1;
            // recover the case
            let emitted = format!("{scratch}/{id}-emit-{s}.json");
            let j = Job { profile: "checked", shard: s, out: format!("{scratch}/{id}-emit-{s}.out"), digests: None };
            if let Ok(mut c) = {
                let mut cmd = Command::new(bin_of("checked"));
                cmd.arg("worker").arg(id).arg("--tier").arg(a.tier.name()).arg("--seed").arg(a.seed.to_string()).arg("--shard").arg(s.to_string()).arg("--nshards").arg(a.nshards.to_string()).arg("--root").arg(&a.root).arg("--out").arg(&j.out).arg("--emit-hash").arg(&hash).arg("--emit-to").arg(&emitted);
                cmd.stdin(Stdio::null()).stdout(Stdio::null()).stderr(Stdio::null()).spawn()
            } {
                let _ = c.wait();
            }
            let case: Option<serde_json::Value> = std::fs::read_to_string(&emitted).ok().and_then(|t| serde_json::from_str(&t).ok());
            let digests_of = |bin: &str| -> Vec<String> {
                (0..5)
                    .map(|_| {
                        Command::new(bin).arg("digest").arg(id).arg(&emitted).arg("--root").arg(&a.root).output().map(|o| String::from_utf8_lossy(&o.stdout).trim().to_string()).unwrap_or_default()
                    })
                    .collect()
            };
            match case {
                Some(case) => {
                    let dc = digests_of(&bin_of("checked"));
                    let dw = digests_of(&bin_of("wrapping"));
                    let stable = |v: &Vec<String>| v.iter().all(|x| x == &v[0] && !x.is_empty());
                    if stable(&dc) && stable(&dw) && dc[0] != dw[0] {
                        failures.push(FoundFailure {
                            failure: Failure {
                                kind: "cross-build".into(),
                                clause: "checked-vs-wrapping-digest".into(),
                                detail: format!("the result digest of this case is {} in the overflow-checked build and {} in the wrapping build (stable over 5 fresh processes each)", dc[0], dw[0]),
                            },
                            case: case.get("case").cloned().unwrap_or(case),
                            stage: "cross-build".into(),
                            profile: "both".into(),
                            shrunk: false,
                        });
                    } else {
                        let path = format!("{}/replays/{id}-nondeterministic-{hash}.json", a.root);
                        let _ = std::fs::create_dir_all(format!("{}/replays", a.root));
                        let _ = std::fs::write(&path, serde_json::to_string_pretty(&case).unwrap_or_default());
                        cross_notes.push(format!("shard {s} case {hash}: the two builds' digests differed in the main run, but re-execution shows the outcome varies from process to process within one build (checked {dc:?}, wrapping {dw:?}): nondeterminism of the code under test, not build dependence; case saved to {path}"));
                    }
                }
                None => infra.push(format!("cross-build digests of shard {s} differ at line {first} but the case {hash} could not be regenerated")),
            }
        }
    }

    // merge
    let mut evaluations = 0u64;
    let (mut ev_reg, mut ev_enum, mut ev_rand) = (0u64, 0u64, 0u64);
    let mut per_build: BTreeMap<String, u64> = BTreeMap::new();
    let mut nontrivial: HashSet<u64> = HashSet::new();
    let mut labels: BTreeMap<String, u64> = BTreeMap::new();
    let mut samples: Vec<serde_json::Value> = Vec::new();
    let mut known_hits: BTreeMap<String, (u64, serde_json::Value)> = BTreeMap::new();
    summaries.sort_by(|x, y| (x.profile.clone(), x.shard).cmp(&(y.profile.clone(), y.shard)));
    for s in &summaries {
        evaluations += s.evaluations;
        ev_reg += s.evaluations_regression;
        ev_enum += s.evaluations_enumerated;
        ev_rand += s.evaluations_random;
        *per_build.entry(s.profile.clone()).or_insert(0) += s.evaluations;
        nontrivial.extend(s.nontrivial_hashes.iter().copied());
        if let Ok(buf) = std::fs::read(format!("{scratch}/{id}-{}-{}.json.nth", s.profile, s.shard)) {
            for c in buf.chunks_exact(8) {
                nontrivial.insert(u64::from_le_bytes(c.try_into().unwrap()));
            }
        }
        if s.profile == "checked" {
            for (k, v) in &s.labels {
                *labels.entry(k.clone()).or_insert(0) += v;
            }
            for x in &s.samples {
                if samples.len() < 8 {
                    samples.push(x.clone());
                }
            }
        }
        for (k, (n, c)) in &s.known_hits {
            let e = known_hits.entry(k.clone()).or_insert((0, c.clone()));
            e.0 += n;
        }
    }

    // dedupe failures by signature; harness bugs are infrastructure trouble, not violations
    let mut seen: HashSet<String> = HashSet::new();
    let mut violations: Vec<(FoundFailure, String)> = Vec::new();
    for f in failures {
        if f.failure.kind == "harness-bug" {
            if seen.insert(f.failure.signature()) {
                let path = write_replay(&a.root, id, &f);
                infra.push(format!("harness bug: {} — {} (case saved to {path})", f.failure.clause, f.failure.detail));
            }
            continue;
        }
        let sig = f.failure.signature();
        if known.matches_open(id, &sig).is_some() {
            let e = known_hits.entry(sig).or_insert((0, f.case.clone()));
            e.0 += 1;
            continue;
        }
        if seen.insert(sig) {
            let path = write_replay(&a.root, id, &f);
            violations.push((f, path));
        }
    }

    let wall = t0.elapsed().as_secs_f64();
    let extra: Option<serde_json::Value> = a
        .extra_evidence
        .as_ref()
        .and_then(|p| std::fs::read_to_string(p).ok())
        .and_then(|t| serde_json::from_str(&t).ok());
    let mut coverage = serde_json::json!({
        "evaluations": evaluations,
        "distinct_nontrivial": nontrivial.len(),
        "rule": prop.rule(),
        "samples": samples,
        "exhaustive": false,
        "exhaustive_subspaces": prop.exhaustive_note(a.tier),
        "evaluations_by_stage": {"regression_replays": ev_reg, "bounded_exhaustive": ev_enum, "random": ev_rand},
        "evaluations_by_build": per_build,
        "label_histogram_checked_build": labels,
        "shards": a.nshards,
        "known_findings_hit": known_hits.iter().map(|(k, (n, _))| (k.clone(), *n)).collect::<BTreeMap<_, _>>(),
        "cross_build_digest_mismatches": cross_mismatch,
        "cross_build_notes": cross_notes,
        "infrastructure_notes": infra,
    });
    if let Some(e) = extra {
        coverage["fuzzing"] = e;
    }
    let evidence = serde_json::json!({
        "property_id": id,
        "tier": a.tier.name(),
        "seed": a.seed,
        "level": "exploration",
        "coverage": coverage,
        "assumptions": prop.assumptions(),
        "wall_s": (wall * 1000.0).round() / 1000.0,
        "violations": violations.len(),
        "violation_details": violations.iter().map(|(f, p)| serde_json::json!({"signature": f.failure.signature(), "detail": f.failure.detail, "replay": p, "profile": f.profile, "stage": f.stage})).collect::<Vec<_>>(),
    });
    let _ = std::fs::create_dir_all(format!("{}/evidence", a.root));
    let ev_path = format!("{}/evidence/{}.json", a.root, id);
    // never leave a stale or half-written evidence file behind
    let tmp = format!("{ev_path}.tmp");
    let _ = std::fs::write(&tmp, serde_json::to_string_pretty(&evidence).unwrap());
    let _ = std::fs::rename(&tmp, &ev_path);
    let _ = std::fs::remove_dir_all(&scratch);

    for (sig, (n, _)) in &known_hits {
        if let Some(k) = known.matches_open(id, sig) {
            println!("KNOWN-FINDING: property={id} {} [{sig}] ({n} hits)", k.description);
        }
    }
    println!(
        "{id} tier={} seed={} evaluations={} distinct_nontrivial={} builds={} wall={:.1}s",
        a.tier.name(),
        a.seed,
        evaluations,
        nontrivial.len(),
        profiles.iter().map(|(p, _)| *p).collect::<Vec<_>>().join("+"),
        wall
    );
    for (f, path) in &violations {
        println!("  violation [{}] profile={} stage={}: {}", f.failure.signature(), f.profile, f.stage, f.failure.detail);
        println!("VIOLATION property={id} replay={path}");
    }
    if !violations.is_empty() {
        return 1;
    }
    if !infra.is_empty() {
        for i in &infra {
            eprintln!("INCONCLUSIVE: {i}");
        }
        return 2;
    }
    if evaluations == 0 {
        eprintln!("INCONCLUSIVE: no case was executed");
        return 2;
    }
    0
}

/// Shrinks a crashing case by replaying candidates in sub-processes (bounded).
fn shrink_crash(prop: &dyn DynProp, bin: &str, root: &str, scratch: &str, mut case: serde_json::Value) -> serde_json::Value {
    let mut budget = 60;
    'outer: loop {
        for cand in prop.shrink_json(&case) {
            if budget == 0 {
                break 'outer;
            }
            budget -= 1;
            let path = format!("{scratch}/shrink-cand.json");
            if std::fs::write(&path, cand.to_string()).is_err() {
                break 'outer;
            }
            let st = Command::new(bin)
                .arg("replay")
                .arg(prop.id())
                .arg(&path)
                .arg("--root")
                .arg(root)
                .stdin(Stdio::null())
                .stdout(Stdio::null())
                .stderr(Stdio::null())
                .status();
            if let Ok(st) = st {
                // died from a signal (no exit code) => still crashing
                if st.code().is_none() {
                    case = cand;
                    continue 'outer;
                }
            }
        }
        break;
    }
    case
}
