//! The interface every property module implements, and the per-case context (`Cx`) through
//! which a run reports labels, non-triviality, result digests and failures.
use super::panics::{self, PanicRecord};
use proptest::strategy::BoxedStrategy;
use serde::{de::DeserializeOwned, Deserialize, Serialize};
use std::fmt::Debug;
use std::hash::Hash;

#[derive(Clone, Copy, Debug, PartialEq, Eq, Serialize, Deserialize)]
pub enum Tier {
    Quick,
    Thorough,
}
impl Tier {
    pub fn pick<T>(self, quick: T, thorough: T) -> T {
        match self {
            Tier::Quick => quick,
            Tier::Thorough => thorough,
        }
    }
    pub fn name(self) -> &'static str {
        self.pick("quick", "thorough")
    }
}

/// Which arithmetic build this binary is (set by `check` through VERIF_PROFILE at build time).
pub fn profile() -> &'static str {
    if cfg!(debug_assertions) {
        "checked"
    } else {
        "wrapping"
    }
}

#[derive(Clone, Debug, Serialize, Deserialize)]
pub struct Failure {
    /// panic | oracle | alloc | abort | cross-build | harness-bug
    pub kind: String,
    /// oracle clause name, or panic location + message class
    pub clause: String,
    pub detail: String,
}
impl Failure {
    pub fn signature(&self) -> String {
        format!("{}:{}", self.kind, self.clause)
    }
}

/// Per-case context.
#[derive(Default)]
pub struct Cx {
    pub labels: Vec<&'static str>,
    pub nontrivial: bool,
    pub failure: Option<Failure>,
    pub digest: u64,
    /// when true, panics are *expected to be recorded as failures* (default)
    pub strict: bool,
    /// fuzz targets: do not catch panics of the code under test (the fuzzer reports the crash itself)
    pub passthrough_panics: bool,
}

impl Cx {
    pub fn new() -> Self {
        Cx { strict: true, ..Default::default() }
    }
    pub fn label(&mut self, l: &'static str) {
        if !self.labels.contains(&l) {
            self.labels.push(l);
        }
    }
    pub fn label_if(&mut self, cond: bool, l: &'static str) {
        if cond {
            self.label(l)
        }
    }
    pub fn nontrivial(&mut self) {
        self.nontrivial = true;
    }
    pub fn failed(&self) -> bool {
        self.failure.is_some()
    }
    /// Record an oracle failure (first one wins).
    pub fn fail(&mut self, clause: &str, detail: impl Into<String>) {
        if self.failure.is_none() {
            let mut d: String = detail.into();
            if d.len() > 2000 {
                let mut cut = 2000;
                while !d.is_char_boundary(cut) {
                    cut -= 1;
                }
                d.truncate(cut);
                d.push_str("…");
            }
            self.failure = Some(Failure { kind: "oracle".into(), clause: clause.into(), detail: d });
        }
    }
    pub fn fail_kind(&mut self, kind: &str, clause: &str, detail: impl Into<String>) {
        if self.failure.is_none() {
            self.failure = Some(Failure { kind: kind.into(), clause: clause.into(), detail: detail.into() });
        }
    }
    /// Check a condition of the oracle.
    pub fn check(&mut self, cond: bool, clause: &str, detail: impl FnOnce() -> String) -> bool {
        if !cond {
            let d = detail();
            self.fail(clause, d);
        }
        cond
    }
    pub fn record_panic(&mut self, p: &PanicRecord) {
        if p.in_harness() {
            self.fail_kind(
                "harness-bug",
                &format!("{}:{}", p.short_file(), p.line),
                format!("harness code panicked: {} at {}:{}", p.message, p.file, p.line),
            );
        } else {
            self.fail_kind(
                "panic",
                &format!("{}:{} {}", p.short_file(), p.line, p.message_class()),
                format!("panicked at {}:{}: {}", p.file, p.line, p.message),
            );
        }
    }
    /// Call into the code under test; a panic is recorded as a failure and `None` returned.
    pub fn call<T>(&mut self, f: impl FnOnce() -> T) -> Option<T> {
        if self.passthrough_panics {
            return Some(f());
        }
        match panics::catch(f) {
            Ok(v) => Some(v),
            Err(p) => {
                self.record_panic(&p);
                None
            }
        }
    }
    /// Mix a value into this case's result digest (compared between the two builds).
    pub fn mix(&mut self, v: u64) {
        self.digest = (self.digest ^ v).wrapping_mul(0x9E37_79B9_7F4A_7C15).rotate_left(23);
    }
    pub fn mix_bytes(&mut self, b: &[u8]) {
        self.mix(fnv(b));
    }
}

pub fn fnv(b: &[u8]) -> u64 {
    let mut h: u64 = 0xcbf29ce484222325;
    for x in b {
        h ^= *x as u64;
        h = h.wrapping_mul(0x100000001b3);
    }
    h ^ (b.len() as u64).wrapping_mul(0x9E37_79B9_7F4A_7C15)
}

pub trait Prop: 'static {
    type Case: Clone + Debug + Hash + Serialize + DeserializeOwned + 'static;
    const ID: &'static str;
    /// how cases are generated and what makes one non-trivial
    fn rule() -> String;
    fn assumptions() -> Vec<String>;
    /// also run under the wrapping (no overflow checks) build?
    fn both_builds() -> bool {
        false
    }
    /// compare per-case result digests between the two builds?
    fn cross_build() -> bool {
        false
    }
    /// total number of random cases (per build, over all shards)
    fn random_cases(tier: Tier) -> u64;
    fn strategy(tier: Tier) -> BoxedStrategy<Self::Case>;
    /// bounded-exhaustive tier: call `f` for the cases of this shard (index % nshards == shard);
    /// stop early when `f` returns false.
    fn enumerate(_tier: Tier, _shard: u64, _nshards: u64, _f: &mut dyn FnMut(Self::Case) -> bool) {}
    /// description of the exhaustively enumerated sub-space (evidence)
    fn exhaustive_note(_tier: Tier) -> Option<String> {
        None
    }
    /// hard allocation cap for this property's workers (None = unlimited)
    fn hard_alloc_cap() -> Option<usize> {
        None
    }
    /// executes one case against mila and applies the oracle
    fn run(case: &Self::Case, cx: &mut Cx);
    /// extra shrink candidates for failures found outside proptest (enumerated / crash cases)
    fn shrink(_case: &Self::Case) -> Vec<Self::Case> {
        Vec::new()
    }
    /// valid inputs for the seed corpus of a byte-level fuzzer (C05, C11)
    fn corpus(_seed: u64) -> Vec<Vec<u8>> {
        Vec::new()
    }
}

/// splitmix64: deterministic expansion of seeds stored inside a Case
#[derive(Clone)]
pub struct Mix64(pub u64);
impl Mix64 {
    pub fn next(&mut self) -> u64 {
        self.0 = self.0.wrapping_add(0x9E37_79B9_7F4A_7C15);
        let mut z = self.0;
        z = (z ^ (z >> 30)).wrapping_mul(0xBF58_476D_1CE4_E5B9);
        z = (z ^ (z >> 27)).wrapping_mul(0x94D0_49BB_1331_11EB);
        z ^ (z >> 31)
    }
    pub fn below(&mut self, n: u64) -> u64 {
        if n == 0 {
            0
        } else {
            self.next() % n
        }
    }
    pub fn bytes(&mut self, n: usize) -> Vec<u8> {
        let mut v = Vec::with_capacity(n);
        while v.len() < n {
            let x = self.next().to_le_bytes();
            let take = (n - v.len()).min(8);
            v.extend_from_slice(&x[..take]);
        }
        v
    }
}
