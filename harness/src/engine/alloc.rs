//! Allocation monitor (DESIGN 3.7): a global allocator wrapping `System` that records, per
//! thread, the largest single request since the last reset, and refuses requests above a hard
//! cap (so that a field-sized 4 GiB request aborts the worker instead of eating the machine).
use std::alloc::{GlobalAlloc, Layout, System};
use std::cell::Cell;
use std::sync::atomic::{AtomicUsize, Ordering};

pub struct Monitor;

thread_local! {
    static MAX_REQ: Cell<usize> = const { Cell::new(0) };
}
static HARD_CAP: AtomicUsize = AtomicUsize::new(usize::MAX);

#[inline]
fn note(size: usize) {
    let _ = MAX_REQ.try_with(|m| {
        if size > m.get() {
            m.set(size)
        }
    });
}

fn refuse(size: usize) {
    // no allocation here: format the number by hand and write(2) it to stderr
    let mut buf = [0u8; 64];
    let prefix = b"VERIF-ALLOC-REFUSED size=";
    let mut n = 0;
    for b in prefix {
        buf[n] = *b;
        n += 1;
    }
    let mut digits = [0u8; 24];
    let mut d = 0;
    let mut v = size;
    loop {
        digits[d] = b'0' + (v % 10) as u8;
        d += 1;
        v /= 10;
        if v == 0 {
            break;
        }
    }
    while d > 0 {
        d -= 1;
        buf[n] = digits[d];
        n += 1;
    }
    buf[n] = b'\n';
    n += 1;
    unsafe {
        libc::write(2, buf.as_ptr() as *const libc::c_void, n);
    }
}

unsafe impl GlobalAlloc for Monitor {
    unsafe fn alloc(&self, l: Layout) -> *mut u8 {
        note(l.size());
        if l.size() > HARD_CAP.load(Ordering::Relaxed) {
            refuse(l.size());
            return std::ptr::null_mut();
        }
        System.alloc(l)
    }
    unsafe fn alloc_zeroed(&self, l: Layout) -> *mut u8 {
        note(l.size());
        if l.size() > HARD_CAP.load(Ordering::Relaxed) {
            refuse(l.size());
            return std::ptr::null_mut();
        }
        System.alloc_zeroed(l)
    }
    unsafe fn realloc(&self, p: *mut u8, l: Layout, new_size: usize) -> *mut u8 {
        note(new_size);
        if new_size > HARD_CAP.load(Ordering::Relaxed) {
            refuse(new_size);
            return std::ptr::null_mut();
        }
        System.realloc(p, l, new_size)
    }
    unsafe fn dealloc(&self, p: *mut u8, l: Layout) {
        System.dealloc(p, l)
    }
}

/// Forget the largest request seen so far on this thread.
pub fn reset() {
    let _ = MAX_REQ.try_with(|m| m.set(0));
}
/// Largest single request on this thread since the last `reset`.
pub fn max_request() -> usize {
    MAX_REQ.try_with(|m| m.get()).unwrap_or(0)
}
/// Requests above `cap` bytes are refused (null => handle_alloc_error => abort).
pub fn set_hard_cap(cap: usize) {
    HARD_CAP.store(cap, Ordering::Relaxed);
}
