//! known_findings.json: open entries turn a matching violation into a KNOWN-FINDING line,
//! fixed entries suppress nothing.
use serde::{Deserialize, Serialize};

#[derive(Clone, Debug, Serialize, Deserialize)]
pub struct KnownFinding {
    pub property: String,
    /// "open" or "fixed"
    pub status: String,
    /// exact failure signature (`kind:clause`) this entry covers; for fixed entries informational
    pub signature: String,
    pub description: String,
    #[serde(default)]
    pub commit: Option<String>,
    #[serde(default)]
    pub regression: Option<String>,
}

#[derive(Clone, Debug, Default, Serialize, Deserialize)]
pub struct KnownFindings {
    pub findings: Vec<KnownFinding>,
}

impl KnownFindings {
    pub fn load(path: &str) -> Self {
        std::fs::read_to_string(path)
            .ok()
            .and_then(|t| serde_json::from_str(&t).ok())
            .unwrap_or_default()
    }
    pub fn matches_open(&self, property: &str, signature: &str) -> Option<&KnownFinding> {
        self.findings
            .iter()
            .find(|k| k.status == "open" && k.property == property && k.signature == signature)
    }
}
