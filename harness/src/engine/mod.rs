pub mod alloc;
pub mod known;
pub mod panics;
pub mod parent;
pub mod prop;
pub mod worker;

use prop::{Failure, Prop, Tier};
use worker::{ShardArgs, ShardSummary};

/// Type-erased view of a property module.
pub trait DynProp: Sync {
    fn id(&self) -> &'static str;
    fn rule(&self) -> String;
    fn assumptions(&self) -> Vec<String>;
    fn both_builds(&self) -> bool;
    fn cross_build(&self) -> bool;
    fn exhaustive_note(&self, tier: Tier) -> Option<String>;
    fn run_shard(&self, args: ShardArgs) -> ShardSummary;
    fn replay(&self, v: serde_json::Value) -> Result<Option<Failure>, String>;
    fn shrink_json(&self, v: &serde_json::Value) -> Vec<serde_json::Value>;
    fn corpus(&self, seed: u64) -> Vec<Vec<u8>>;
    fn digest_of(&self, v: serde_json::Value) -> Result<u64, String>;
}

pub struct Erased<P: Prop>(pub std::marker::PhantomData<fn() -> P>);
impl<P: Prop> Erased<P> {
    pub const fn new() -> Self {
        Erased(std::marker::PhantomData)
    }
}

impl<P: Prop> DynProp for Erased<P> {
    fn id(&self) -> &'static str {
        P::ID
    }
    fn rule(&self) -> String {
        P::rule()
    }
    fn assumptions(&self) -> Vec<String> {
        P::assumptions()
    }
    fn both_builds(&self) -> bool {
        P::both_builds()
    }
    fn cross_build(&self) -> bool {
        P::cross_build()
    }
    fn exhaustive_note(&self, tier: Tier) -> Option<String> {
        P::exhaustive_note(tier)
    }
    fn run_shard(&self, args: ShardArgs) -> ShardSummary {
        worker::run_shard::<P>(args)
    }
    fn replay(&self, v: serde_json::Value) -> Result<Option<Failure>, String> {
        worker::replay::<P>(v)
    }
    fn corpus(&self, seed: u64) -> Vec<Vec<u8>> {
        P::corpus(seed)
    }
    fn digest_of(&self, v: serde_json::Value) -> Result<u64, String> {
        worker::digest_of::<P>(v)
    }
    fn shrink_json(&self, v: &serde_json::Value) -> Vec<serde_json::Value> {
        let cv = v.get("case").cloned().unwrap_or_else(|| v.clone());
        match serde_json::from_value::<P::Case>(cv) {
            Ok(c) => P::shrink(&c).iter().filter_map(|c| serde_json::to_value(c).ok()).collect(),
            Err(_) => Vec::new(),
        }
    }
}
