//! Panic capture: a hook that records message + location instead of printing, and a
//! `catch` wrapper that returns them.
use std::cell::RefCell;
use std::panic::{catch_unwind, AssertUnwindSafe};

#[derive(Clone, Debug)]
pub struct PanicRecord {
    pub message: String,
    pub file: String,
    pub line: u32,
}

impl PanicRecord {
    /// file path reduced to something stable across machines: `/repo/src/x.rs` -> `src/x.rs`,
    /// registry crates -> `<crate-version>/src/..`
    pub fn short_file(&self) -> String {
        let f = &self.file;
        if let Some(i) = f.find("/registry/src/") {
            let rest = &f[i + "/registry/src/".len()..];
            if let Some(j) = rest.find('/') {
                return rest[j + 1..].to_string();
            }
        }
        if let Some(rest) = f.strip_prefix("/repo/") {
            return rest.to_string();
        }
        if let Some(i) = f.find("/library/") {
            return format!("std:{}", &f[i + 9..]);
        }
        f.clone()
    }
    /// Is the panic raised by the harness's own code (a harness bug, not a violation)?
    pub fn in_harness(&self) -> bool {
        self.file.starts_with("src/") || self.file.contains("/verif/harness/") || self.file.contains("/verif/fuzz/")
    }
    /// message with numbers replaced by '#', so that one root cause has one signature
    pub fn message_class(&self) -> String {
        let mut out = String::new();
        let mut in_num = false;
        for c in self.message.chars().take(120) {
            if c.is_ascii_digit() {
                if !in_num {
                    out.push('#');
                    in_num = true;
                }
            } else {
                in_num = false;
                out.push(c);
            }
        }
        out
    }
}

thread_local! {
    static LAST: RefCell<Option<PanicRecord>> = const { RefCell::new(None) };
}

pub fn install_hook() {
    std::panic::set_hook(Box::new(|info| {
        let message = if let Some(s) = info.payload().downcast_ref::<&str>() {
            (*s).to_string()
        } else if let Some(s) = info.payload().downcast_ref::<String>() {
            s.clone()
        } else {
            "<non-string panic payload>".to_string()
        };
        let (file, line) = info
            .location()
            .map(|l| (l.file().to_string(), l.line()))
            .unwrap_or_else(|| ("<unknown>".to_string(), 0));
        let _ = LAST.try_with(|l| *l.borrow_mut() = Some(PanicRecord { message, file, line }));
    }));
}

/// Runs `f`; a panic is returned as `Err(record)`.
pub fn catch<T>(f: impl FnOnce() -> T) -> Result<T, PanicRecord> {
    let _ = LAST.try_with(|l| *l.borrow_mut() = None);
    match catch_unwind(AssertUnwindSafe(f)) {
        Ok(v) => Ok(v),
        Err(_) => Err(LAST
            .try_with(|l| l.borrow_mut().take())
            .ok()
            .flatten()
            .unwrap_or(PanicRecord { message: "<panic without record>".into(), file: "<unknown>".into(), line: 0 })),
    }
}
