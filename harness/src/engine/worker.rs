//! Executes one shard of one property in this process and returns a summary.
use super::alloc;
use super::known::KnownFindings;
use super::panics;
use super::prop::{profile, Cx, Failure, Prop, Tier};
use proptest::test_runner::{Config, RngSeed, TestCaseError, TestError, TestRunner};
use serde::{Deserialize, Serialize};
use std::cell::RefCell;
use std::collections::{BTreeMap, HashSet};
use std::hash::{Hash, Hasher};
use std::io::Write;

#[derive(Clone, Debug, Serialize, Deserialize)]
pub struct FoundFailure {
    pub failure: Failure,
    pub case: serde_json::Value,
    /// regressions | enumerated | random
    pub stage: String,
    pub profile: String,
    pub shrunk: bool,
}

#[derive(Clone, Debug, Default, Serialize, Deserialize)]
pub struct ShardSummary {
    pub property: String,
    pub profile: String,
    pub shard: u64,
    pub evaluations: u64,
    pub evaluations_regression: u64,
    pub evaluations_enumerated: u64,
    pub evaluations_random: u64,
    pub nontrivial_hashes: Vec<u64>,
    #[serde(default)]
    pub nontrivial_count: u64,
    pub labels: BTreeMap<String, u64>,
    pub samples: Vec<serde_json::Value>,
    pub failures: Vec<FoundFailure>,
    /// open known findings that were hit: signature -> (count, first case)
    pub known_hits: BTreeMap<String, (u64, serde_json::Value)>,
    pub wall_s: f64,
}

pub struct ShardArgs {
    pub tier: Tier,
    pub seed: u64,
    pub shard: u64,
    pub nshards: u64,
    pub breadcrumb: Option<String>,
    pub digest_file: Option<String>,
    pub regressions_dir: String,
    pub known: KnownFindings,
    /// run only this stage (regressions | enumerated | random)
    pub stage_filter: Option<String>,
    /// when a case with this hash is executed, write it (JSON) to the given path
    pub emit: Option<(u64, String)>,
    /// write the hashes of the distinct non-trivial cases to this file (8 bytes each) instead of the JSON summary
    pub hash_file: Option<String>,
}

pub fn case_hash<C: Hash>(c: &C) -> u64 {
    // DefaultHasher::new() uses fixed keys: deterministic across processes
    let mut h = std::collections::hash_map::DefaultHasher::new();
    c.hash(&mut h);
    h.finish()
}

fn sample_json<C: Serialize>(c: &C) -> serde_json::Value {
    let v = serde_json::to_value(c).unwrap_or(serde_json::Value::Null);
    let s = v.to_string();
    if s.len() > 1500 {
        let mut cut = 1500;
        while !s.is_char_boundary(cut) {
            cut -= 1;
        }
        serde_json::json!({ "truncated_json": &s[..cut], "full_length": s.len() })
    } else {
        v
    }
}

struct State<P: Prop> {
    sum: ShardSummary,
    nontrivial: HashSet<u64>,
    breadcrumb: Option<String>,
    digests: Option<std::io::BufWriter<std::fs::File>>,
    known: KnownFindings,
    distinct_fail_sigs: HashSet<String>,
    /// set while proptest is shrinking: stop counting
    frozen: bool,
    emit: Option<(u64, String)>,
    _p: std::marker::PhantomData<P>,
}

/// Runs one case with full bookkeeping. Returns the failure (if any, and not a known finding).
fn exec<P: Prop>(st: &mut State<P>, case: &P::Case, stage: &str) -> Option<Failure> {
    if let Some(path) = &st.breadcrumb {
        if let Ok(mut f) = std::fs::File::create(path) {
            let _ = f.write_all(serde_json::to_string(case).unwrap_or_default().as_bytes());
        }
    }
    let mut cx = Cx::new();
    alloc::reset();
    let r = panics::catch(|| P::run(case, &mut cx));
    if let Err(p) = r {
        cx.record_panic(&p);
    }
    if st.frozen {
        return cx.failure;
    }
    st.sum.evaluations += 1;
    match stage {
        "regressions" => st.sum.evaluations_regression += 1,
        "enumerated" => st.sum.evaluations_enumerated += 1,
        _ => st.sum.evaluations_random += 1,
    }
    for l in &cx.labels {
        *st.sum.labels.entry((*l).to_string()).or_insert(0) += 1;
    }
    let h = case_hash(case);
    if let Some((want, path)) = &st.emit {
        if *want == h {
            let _ = std::fs::write(path, serde_json::to_string(&serde_json::json!({"property": P::ID, "case": case, "digest": format!("{:016x}", cx.digest)})).unwrap_or_default());
        }
    }
    if cx.nontrivial && st.nontrivial.insert(h) && st.sum.samples.len() < 6 {
        // spread the samples: take the 1st, and then every so often
        let n = st.nontrivial.len();
        if n == 1 || n % 97 == 0 || (stage != "random" && n % 13 == 0) {
            st.sum.samples.push(sample_json(case));
        }
    }
    if let Some(w) = &mut st.digests {
        let _ = writeln!(w, "{:016x} {:016x}", h, cx.digest);
    }
    if let Some(f) = cx.failure {
        let sig = f.signature();
        if let Some(_k) = st.known.matches_open(P::ID, &sig) {
            let e = st.sum.known_hits.entry(sig).or_insert((0, sample_json(case)));
            e.0 += 1;
            return None;
        }
        return Some(f);
    }
    None
}

pub fn run_shard<P: Prop>(args: ShardArgs) -> ShardSummary {
    let t0 = std::time::Instant::now();
    if let Some(cap) = P::hard_alloc_cap() {
        alloc::set_hard_cap(cap);
    }
    let args_hash_file = args.hash_file.clone();
    let digests = args
        .digest_file
        .as_ref()
        .and_then(|p| std::fs::File::create(p).ok())
        .map(std::io::BufWriter::new);
    let mut st: State<P> = State {
        sum: ShardSummary { property: P::ID.into(), profile: profile().into(), shard: args.shard, ..Default::default() },
        nontrivial: HashSet::new(),
        breadcrumb: args.breadcrumb.clone(),
        digests,
        known: args.known,
        distinct_fail_sigs: HashSet::new(),
        frozen: false,
        emit: args.emit.clone(),
        _p: std::marker::PhantomData,
    };
    let want = |s: &str| args.stage_filter.as_deref().map(|f| f == s).unwrap_or(true);

    // 1. committed regression cases (shard 0 only)
    if args.shard == 0 && want("regressions") {
        let dir = format!("{}/{}", args.regressions_dir, P::ID);
        let mut files: Vec<_> = std::fs::read_dir(&dir)
            .map(|d| d.filter_map(|e| e.ok()).map(|e| e.path()).collect())
            .unwrap_or_default();
        files.sort();
        for f in files {
            if f.extension().and_then(|e| e.to_str()) != Some("json") {
                continue;
            }
            let text = std::fs::read_to_string(&f).unwrap_or_default();
            let v: serde_json::Value = match serde_json::from_str(&text) {
                Ok(v) => v,
                Err(_) => continue,
            };
            let cv = v.get("case").cloned().unwrap_or(v);
            match serde_json::from_value::<P::Case>(cv.clone()) {
                Ok(case) => {
                    if let Some(fl) = exec::<P>(&mut st, &case, "regressions") {
                        let mut fl = fl;
                        fl.detail = format!("regression file {}: {}", f.display(), fl.detail);
                        record::<P>(&mut st, fl, &case, "regressions", false);
                    }
                }
                Err(e) => {
                    st.sum.failures.push(FoundFailure {
                        failure: Failure {
                            kind: "harness-bug".into(),
                            clause: "regression-file-unreadable".into(),
                            detail: format!("{}: {}", f.display(), e),
                        },
                        case: cv,
                        stage: "regressions".into(),
                        profile: profile().into(),
                        shrunk: false,
                    });
                }
            }
        }
    }

    // 2. bounded-exhaustive tier
    if want("enumerated") {
        let mut stop = false;
        let mut repeats = 0u32;
        P::enumerate(args.tier, args.shard, args.nshards, &mut |case| {
            if let Some(fl) = exec::<P>(&mut st, &case, "enumerated") {
                repeats += 1;
                if !st.distinct_fail_sigs.contains(&fl.signature()) {
                    // greedy structural shrinking with the module's candidates
                    let (case, fl, shrunk) = greedy_shrink::<P>(&mut st, case, fl);
                    record::<P>(&mut st, fl, &case, "enumerated", shrunk);
                }
                if st.distinct_fail_sigs.len() >= 3 || repeats >= 200 {
                    stop = true;
                }
            }
            !stop
        });
    }

    // 3. random tier (proptest)
    let total = P::random_cases(args.tier);
    let per_shard = (total + args.nshards - 1) / args.nshards;
    if per_shard > 0 && want("random") && st.distinct_fail_sigs.len() < 3 {
        let seed = derive_seed(args.seed, P::ID, args.shard);
        let config = Config {
            cases: per_shard.min(u32::MAX as u64) as u32,
            max_shrink_iters: 20_000,
            max_shrink_time: 0,
            failure_persistence: None,
            rng_seed: RngSeed::Fixed(seed),
            verbose: 0,
            source_file: None,
            test_name: None,
            max_global_rejects: 65_536,
            ..Config::default()
        };
        let mut runner = TestRunner::new(config);
        let strategy = P::strategy(args.tier);
        let cell = RefCell::new(&mut st);
        let result = runner.run(&strategy, |case| {
            let mut guard = cell.borrow_mut();
            let st: &mut State<P> = &mut **guard;
            match exec::<P>(st, &case, "random") {
                None => Ok(()),
                Some(f) => {
                    st.frozen = true;
                    Err(TestCaseError::fail(f.signature()))
                }
            }
        });
        drop(cell);
        st.frozen = false;
        match result {
            Ok(()) => {}
            Err(TestError::Fail(_reason, minimal)) => {
                // re-run the minimal case for its failure record (not counted)
                st.frozen = true;
                let fl = exec::<P>(&mut st, &minimal, "random");
                st.frozen = false;
                let fl = fl.unwrap_or(Failure {
                    kind: "oracle".into(),
                    clause: "non-reproducible".into(),
                    detail: "the minimal case did not fail when re-run (state leak or nondeterminism in the code under test)".into(),
                });
                record::<P>(&mut st, fl, &minimal, "random", true);
            }
            Err(TestError::Abort(reason)) => {
                st.sum.failures.push(FoundFailure {
                    failure: Failure { kind: "harness-bug".into(), clause: "proptest-abort".into(), detail: reason.to_string() },
                    case: serde_json::Value::Null,
                    stage: "random".into(),
                    profile: profile().into(),
                    shrunk: false,
                });
            }
        }
    }

    if let Some(w) = &mut st.digests {
        let _ = w.flush();
    }
    st.sum.nontrivial_count = st.nontrivial.len() as u64;
    match &args_hash_file {
        Some(path) => {
            // compact side file: 8 bytes per hash
            let mut buf: Vec<u8> = Vec::with_capacity(st.nontrivial.len() * 8);
            for h in &st.nontrivial {
                buf.extend_from_slice(&h.to_le_bytes());
            }
            let _ = std::fs::write(path, buf);
        }
        None => {
            st.sum.nontrivial_hashes = st.nontrivial.iter().copied().collect();
            st.sum.nontrivial_hashes.sort();
        }
    }
    st.sum.wall_s = t0.elapsed().as_secs_f64();
    st.sum
}

fn record<P: Prop>(st: &mut State<P>, f: Failure, case: &P::Case, stage: &str, shrunk: bool) {
    if st.distinct_fail_sigs.insert(f.signature()) {
        st.sum.failures.push(FoundFailure {
            failure: f,
            case: serde_json::to_value(case).unwrap_or(serde_json::Value::Null),
            stage: stage.into(),
            profile: profile().into(),
            shrunk,
        });
    }
}

fn greedy_shrink<P: Prop>(st: &mut State<P>, mut case: P::Case, mut fl: Failure) -> (P::Case, Failure, bool) {
    let was_frozen = st.frozen;
    st.frozen = true;
    let mut shrunk = false;
    let mut budget = 2000;
    'outer: loop {
        for cand in P::shrink(&case) {
            if budget == 0 {
                break 'outer;
            }
            budget -= 1;
            if let Some(f2) = exec::<P>(st, &cand, "shrink") {
                if f2.kind == fl.kind {
                    case = cand;
                    fl = f2;
                    shrunk = true;
                    continue 'outer;
                }
            }
        }
        break;
    }
    st.frozen = was_frozen;
    (case, fl, shrunk)
}

pub fn derive_seed(seed: u64, id: &str, shard: u64) -> u64 {
    let mut h = std::collections::hash_map::DefaultHasher::new();
    seed.hash(&mut h);
    id.hash(&mut h);
    shard.hash(&mut h);
    h.finish()
}

/// Result digest of one saved case (for the cross-build comparison).
pub fn digest_of<P: Prop>(case_json: serde_json::Value) -> Result<u64, String> {
    if let Some(cap) = P::hard_alloc_cap() {
        alloc::set_hard_cap(cap);
    }
    let cv = case_json.get("case").cloned().unwrap_or(case_json);
    let case: P::Case = serde_json::from_value(cv).map_err(|e| format!("cannot decode case: {e}"))?;
    let mut cx = Cx::new();
    if let Err(p) = panics::catch(|| P::run(&case, &mut cx)) {
        cx.record_panic(&p);
    }
    Ok(cx.digest ^ if cx.failure.is_some() { 0xDEAD } else { 0 })
}

/// Replays one saved case (no generator, no proptest). Returns the failure if any.
pub fn replay<P: Prop>(case_json: serde_json::Value) -> Result<Option<Failure>, String> {
    if let Some(cap) = P::hard_alloc_cap() {
        alloc::set_hard_cap(cap);
    }
    let cv = case_json.get("case").cloned().unwrap_or(case_json);
    let case: P::Case = serde_json::from_value(cv).map_err(|e| format!("cannot decode case: {e}"))?;
    let mut cx = Cx::new();
    alloc::reset();
    if let Err(p) = panics::catch(|| P::run(&case, &mut cx)) {
        cx.record_panic(&p);
    }
    Ok(cx.failure)
}
