//! "Prior history": calls issued on the current thread (or on the object under test) *before* the call a case examines.
//! The statements quantify over inputs and over the listed operations; none of them lets an outcome depend on what the thread did
//! earlier, so a case may be preceded by calls whose arguments lie outside every property's domain (an unencodable string, an
//! over-long input, a truncated file).  Their own outcome - Ok, Err or panic - is ignored; what is checked is that the call under
//! test behaves exactly as it does without them (added after seeded round 6: scratch state kept in thread-locals or in the object
//! and cleared only on the success path).
use crate::engine::panics;
use crate::gen::archive::{build, ArchiveContent, Cell};

/// no Shift-JIS form (an emoji), NUL-free
pub const UNENCODABLE: &str = "k\u{1F600}z";

/// run `f`, ignoring its result and any panic
pub fn quiet<T>(f: impl FnOnce() -> T) {
    let _ = panics::catch(f);
}

/// `content` with one unencodable string placed as late as the writer visits it (the last string cell if there is one, otherwise a
/// label at the end of the data): serializing it fails after most of the text section has been laid out.
pub fn failing_bin_serialize(content: &ArchiveContent, seed: u64) {
    let mut c = content.clone();
    let last_str = c.cells.iter().rev().find(|(_, v)| matches!(v, Cell::Str(_))).map(|(k, _)| *k);
    match last_str {
        Some(k) if seed & 8 == 0 => {
            c.cells.insert(k, Cell::Str(UNENCODABLE.to_string()));
        }
        _ => {
            let end = c.len() as u32;
            c.labels.entry(end).or_default().push(UNENCODABLE.to_string());
        }
    }
    quiet(|| build(&c, seed, false).ok().map(|a| a.serialize().is_ok()));
}

/// A stream that is NOT what the library's compressor emits for `input` but expands to it: literal tokens only, padded with zero bytes to a
/// multiple of 4 as game files are (LZ13: behind the 4-byte wrapper).  Decompressing it is an unrelated earlier call on this thread.
pub fn foreign_stream(input: &[u8], lz13: bool) -> Vec<u8> {
    use crate::refimpl::reflz::{encode, Kind, Token};
    let tokens: Vec<Token> = input.iter().map(|b| Token::Lit(*b)).collect();
    let mut body = encode(if lz13 { Kind::Lz11 } else { Kind::Lz10 }, &tokens);
    while body.len() % 4 != 0 {
        body.push(0);
    }
    if lz13 {
        let n = input.len();
        let mut out = vec![0x13, n as u8, (n >> 8) as u8, (n >> 16) as u8];
        out.extend_from_slice(&body);
        out
    } else {
        body
    }
}
