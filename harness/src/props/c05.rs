//! C05 — archive-family parsers are total on arbitrary bytes.
use super::{c06, c15, c16, c17, c18};
use crate::engine::alloc;
use crate::engine::prop::{Cx, Prop, Tier};
use crate::gen::archive::{content_strategy, ArchiveContent};
use crate::refimpl::refbin;
use mila::{arc, fe9_arc, ASetFile, AssetBinary, BinArchive, Endian, TextArchive, TextArchiveFormat};
use proptest::prelude::*;
use proptest::strategy::ValueTree;
use serde::{Deserialize, Serialize};

pub struct C05;

#[derive(Clone, Debug, Hash, Serialize, Deserialize)]
pub enum Source {
    Random(Vec<u8>),
    /// a file from /repo/resources/test
    RepoFile(String),
    /// a generated valid bin archive (reference writer)
    Archive(ArchiveContent),
    /// generated valid files of the other formats: the sub-case is generated from `seed` by that property's own strategy
    Text(u64),
    Pack(u64),
    Arc(u64),
    Aset(u64),
    Asset(u64),
}

#[derive(Clone, Debug, Hash, Serialize, Deserialize)]
pub enum Plant {
    Abs(u32),
    /// file length + delta
    Len(i8),
    /// value of the data-size header field + delta
    Data(i8),
}

#[derive(Clone, Debug, Hash, Serialize, Deserialize)]
pub enum Mutation {
    /// overwrite the 32-bit word at (index-mapped) word position with a planted value in the given endianness
    PlantU32 { pos: u16, value: Plant, be: bool, header_only: bool },
    PlantU16 { pos: u16, value: u16, be: bool },
    /// header fields chosen so that data + 4*np + 8*nl wraps (mod 2^32) to `target`
    WrapHeader { np: u32, nl: u32, target: u16, be: bool },
    Truncate(u16),
    Flip { pos: u16, xor: u8 },
    /// replace the (index-mapped) NUL byte of the second half of the file by 'A'
    RemoveNul(u16),
    /// overwrite a slice with bytes from another offset of the same file
    Splice { from: u16, to: u16, len: u8 },
    Append(Vec<u8>),
}

#[derive(Clone, Debug, Hash, Serialize, Deserialize)]
pub struct Case {
    pub source: Source,
    pub mutations: Vec<Mutation>,
}

pub const PALETTE: [u32; 14] = [0, 1, 3, 4, 0x0FFF_FFFF, 0x1FFF_FFFF, 0x2000_0000, 0x3FFF_FFFF, 0x4000_0000, 0x7FFF_FFFF, 0x8000_0000, 0xFFFF_FFE0, 0xFFFF_FFFC, 0xFFFF_FFFF];

fn gen_from<S: Strategy>(s: &S, seed: u64) -> S::Value {
    use proptest::test_runner::{Config, RngAlgorithm, TestRng, TestRunner};
    let mut bytes = [0u8; 32];
    bytes[..8].copy_from_slice(&seed.to_le_bytes());
    bytes[8..16].copy_from_slice(&seed.rotate_left(17).to_le_bytes());
    let rng = TestRng::from_seed(RngAlgorithm::ChaCha, &bytes);
    let mut runner = TestRunner::new_with_rng(Config::default(), rng);
    s.new_tree(&mut runner).expect("strategy generates").current()
}

thread_local! {
    static STRATS: (BoxedStrategy<c06::Case>, BoxedStrategy<c15::Case>, BoxedStrategy<c16::Case>, BoxedStrategy<c17::Case>, BoxedStrategy<c18::Case>) = (
        <c06::C06 as Prop>::strategy(Tier::Quick),
        <c15::C15 as Prop>::strategy(Tier::Quick),
        <c16::C16 as Prop>::strategy(Tier::Quick),
        <c17::C17 as Prop>::strategy(Tier::Quick),
        <c18::C18 as Prop>::strategy(Tier::Quick),
    );
}

/// the valid (or random) file a case starts from
pub fn source_bytes(s: &Source) -> Vec<u8> {
    match s {
        Source::Random(v) => v.clone(),
        Source::RepoFile(n) => super::read_repo_test_file(n),
        Source::Archive(c) => {
            let mut c = c.clone();
            c.cells.retain(|_, x| !matches!(x, crate::gen::archive::Cell::CStr(_)));
            refbin::write_canonical(&c, None)
        }
        Source::Text(seed) => STRATS.with(|st| {
            let c = gen_from(&st.0, *seed);
            let mut t = TextArchive::new(if c.unicode { TextArchiveFormat::Unicode } else { TextArchiveFormat::ShiftJIS }, if c.big_endian { Endian::Big } else { Endian::Little });
            t.set_title(c.title.clone());
            for (k, m) in &c.entries {
                t.set_message(k, m);
            }
            t.serialize().unwrap_or_default()
        }),
        Source::Pack(seed) => STRATS.with(|st| {
            let c = gen_from(&st.1, *seed);
            if let c15::Case::Files { files, .. } = &c {
                let mut m = indexmap::IndexMap::new();
                for (n, c) in files {
                    m.insert(n.clone(), match c {
                        c15::Content::Raw(v) => v.clone(),
                        c15::Content::Seeded(n, s) => crate::engine::prop::Mix64(*s).bytes((*n).min(600) as usize),
                    });
                }
                fe9_arc::serialize(&m).unwrap_or_default()
            } else {
                Vec::new()
            }
        }),
        Source::Arc(seed) => STRATS.with(|st| {
            let mut c = gen_from(&st.2, *seed);
            c.negative = c16::Negative::None;
            refbin::write_canonical(&c16::build(&c).content, None)
        }),
        Source::Aset(seed) => STRATS.with(|st| c17::to_aset(&gen_from(&st.3, *seed)).serialize().unwrap_or_default()),
        Source::Asset(seed) => STRATS.with(|st| {
            let c = gen_from(&st.4, *seed);
            let mut ab = AssetBinary::new();
            ab.flags = c.flags;
            ab.specs = c.specs.iter().map(c18::to_spec).collect();
            ab.serialize().unwrap_or_default()
        }),
    }
}

fn put32(b: &mut [u8], off: usize, v: u32, be: bool) {
    if off + 4 <= b.len() {
        b[off..off + 4].copy_from_slice(&if be { v.to_be_bytes() } else { v.to_le_bytes() });
    }
}
fn get32(b: &[u8], off: usize, be: bool) -> Option<u32> {
    let s = b.get(off..off + 4)?;
    let a = [s[0], s[1], s[2], s[3]];
    Some(if be { u32::from_be_bytes(a) } else { u32::from_le_bytes(a) })
}

pub fn apply(mut b: Vec<u8>, muts: &[Mutation]) -> Vec<u8> {
    for m in muts {
        let len = b.len();
        match m {
            Mutation::PlantU32 { pos, value, be, header_only } => {
                let words = if *header_only { (len / 4).min(8) } else { len / 4 };
                if words == 0 {
                    continue;
                }
                let off = ((*pos as usize * words) >> 16) * 4;
                let v = match value {
                    Plant::Abs(v) => *v,
                    Plant::Len(d) => (len as i64 + *d as i64) as u32,
                    Plant::Data(d) => (get32(&b, 4, *be).unwrap_or(0) as i64 + *d as i64) as u32,
                };
                put32(&mut b, off, v, *be);
            }
            Mutation::PlantU16 { pos, value, be } => {
                if len < 2 {
                    continue;
                }
                let off = ((*pos as usize * (len / 2)) >> 16) * 2;
                let v = if *be { value.to_be_bytes() } else { value.to_le_bytes() };
                b[off..off + 2].copy_from_slice(&v);
            }
            Mutation::WrapHeader { np, nl, target, be } => {
                let data = (*target as u32).wrapping_sub(np.wrapping_mul(4)).wrapping_sub(nl.wrapping_mul(8));
                put32(&mut b, 4, data, *be);
                put32(&mut b, 8, *np, *be);
                put32(&mut b, 12, *nl, *be);
            }
            Mutation::Truncate(sel) => {
                let cut = (*sel as usize * (len + 1)) >> 16;
                b.truncate(cut);
            }
            Mutation::Flip { pos, xor } => {
                if len > 0 {
                    let i = (*pos as usize * len) >> 16;
                    b[i] ^= (*xor).max(1);
                }
            }
            Mutation::RemoveNul(sel) => {
                let nuls: Vec<usize> = (len / 2..len).filter(|i| b[*i] == 0).collect();
                if !nuls.is_empty() {
                    b[nuls[(*sel as usize * nuls.len()) >> 16]] = b'A';
                }
            }
            Mutation::Splice { from, to, len: n } => {
                if len > 0 {
                    let f = (*from as usize * len) >> 16;
                    let t = (*to as usize * len) >> 16;
                    let n = (*n as usize).min(len - f).min(len - t);
                    let chunk: Vec<u8> = b[f..f + n].to_vec();
                    b[t..t + n].copy_from_slice(&chunk);
                }
            }
            Mutation::Append(v) => b.extend_from_slice(v),
        }
    }
    b
}

/// does the bin-archive header (in this endianness) declare more than the buffer holds?
fn header_overdeclares(b: &[u8], be: bool) -> Option<bool> {
    if b.len() < 0x20 {
        return None;
    }
    let d = get32(b, 4, be)? as u128;
    let np = get32(b, 8, be)? as u128;
    let nl = get32(b, 12, be)? as u128;
    Some(0x20 + d + 4 * np + 8 * nl > b.len() as u128)
}

/// pack: does the count or any entry declare more than the buffer holds? (None = not a pack file / too short)
fn pack_overdeclares(b: &[u8]) -> Option<bool> {
    if b.len() < 6 || &b[0..4] != b"pack" {
        return None;
    }
    let count = u16::from_be_bytes([b[4], b[5]]) as usize;
    if count > 0 && 8 + 16 * count > b.len() {
        return Some(true);
    }
    for i in 0..count {
        let addr = get32(b, 8 + 16 * i + 8, true)? as u128;
        let size = get32(b, 8 + 16 * i + 12, true)? as u128;
        // an entry of zero bytes declares no file bytes, wherever it points
        if size > 0 && addr + size > b.len() as u128 {
            return Some(true);
        }
    }
    Some(false)
}

struct Probe<'a> {
    cx: &'a mut Cx,
    len: usize,
    outcome: u64,
}
impl<'a> Probe<'a> {
    /// runs one parser call under the allocation monitor; Some(result) if it returned
    fn call<T, E>(&mut self, entry: &'static str, f: impl FnOnce() -> Result<T, E>) -> Option<Result<T, E>> {
        alloc::reset();
        let r = self.cx.call(f)?;
        let max = alloc::max_request();
        let bound = 64 * self.len + (1 << 20);
        if max > bound {
            self.cx.fail_kind("alloc", &format!("oversized-request {entry}"), format!("{entry}: a single allocation of {max} bytes was requested for an input of {} bytes (bound 64*len + 1 MiB = {bound})", self.len));
            return None;
        }
        self.outcome = self.outcome.rotate_left(3) ^ (r.is_ok() as u64 + 1);
        Some(r)
    }
}

fn mutation_strategy() -> BoxedStrategy<Mutation> {
    let plant = prop_oneof![
        4 => proptest::sample::select(PALETTE.to_vec()).prop_map(Plant::Abs),
        2 => (-4i8..=4).prop_map(Plant::Len),
        2 => (-4i8..=4).prop_map(Plant::Data),
        1 => any::<u32>().prop_map(Plant::Abs),
        1 => (0u32..=0x400).prop_map(Plant::Abs),
    ];
    prop_oneof![
        6 => (any::<u16>(), plant, any::<bool>(), any::<bool>()).prop_map(|(pos, value, be, header_only)| Mutation::PlantU32 { pos, value, be, header_only }),
        1 => (any::<u16>(), prop_oneof![Just(0u16), Just(1), Just(0xFFFF), Just(0x7FFF), Just(0x8000), any::<u16>()], any::<bool>()).prop_map(|(pos, value, be)| Mutation::PlantU16 { pos, value, be }),
        2 => (prop_oneof![0u32..=16, Just(0x4000_0000u32), Just(0x3FFF_FFFF), Just(0x8000_0001), any::<u32>()], prop_oneof![0u32..=16, Just(0x2000_0000u32), Just(0x1FFF_FFFF), any::<u32>()], 0u16..=0x200, any::<bool>())
            .prop_map(|(np, nl, target, be)| Mutation::WrapHeader { np, nl, target, be }),
        3 => any::<u16>().prop_map(Mutation::Truncate),
        3 => (any::<u16>(), any::<u8>()).prop_map(|(pos, xor)| Mutation::Flip { pos, xor }),
        1 => any::<u16>().prop_map(Mutation::RemoveNul),
        1 => (any::<u16>(), any::<u16>(), 1u8..=32).prop_map(|(from, to, len)| Mutation::Splice { from, to, len }),
        1 => proptest::collection::vec(any::<u8>(), 1..8).prop_map(Mutation::Append),
    ]
    .boxed()
}

impl Prop for C05 {
    type Case = Case;
    const ID: &'static str = "C05";
    fn rule() -> String {
        "Inputs: (1) random bytes of length 0..=4096 biased to 0..=0x60; (2) structure-aware mutation of valid files - the repository's test files and files produced by the generators of C01 (reference writer), C06, C15, C16, C17, C18: \
         a boundary value {0,1,3,4,len+-4,data+-4,0x0FFFFFFF,0x1FFFFFFF,0x20000000,0x3FFFFFFF,0x40000000,0x7FFFFFFF,0x80000000,0xFFFFFFE0,0xFFFFFFFC,0xFFFFFFFF} planted in any 32-bit word (weighted to the header) in either endianness, 16-bit plants, \
         header triples chosen so that data + 4*np + 8*nl wraps modulo 2^32 to a small number, truncation to any length, byte flips, NUL removal from the text section, in-file splices, appended bytes; 1..=3 mutations per case. \
         Bounded-exhaustive: every palette value, len+-4 and data+-4 in every word of the first 2 KiB and every truncation length of every repository test file; boundary (address, size) pairs in every entry of the repository's pack file; UTF-16 text archives whose data ends inside a code unit. Every input is fed to ALL entry points: BinArchive::from_bytes (LE, BE) -> serialize, \
         TextArchive::from_bytes (Unicode/ShiftJIS x LE/BE) -> serialize, arc::from_bytes, fe9_arc::parse -> serialize, and ASetFile/AssetBinary::from_archive on every accepted LE archive -> serialize. Oracle per call: it returns (no panic; no abort - worker isolation), \
         the largest single allocation requested during the call is <= 64*len + 1 MiB (allocation monitor; requests above 1 GiB are refused), a bin/text/arc header or pack count/entry that declares more than the buffer holds (computed in u128 by the harness) gives Err, \
         anything Ok is re-serialized without panicking; both builds, per-input Ok/Err outcome digests compared between builds. Non-trivial: the input passes the first size gate of at least one parser, or carries a planted field. Distinct = distinct case value."
            .into()
    }
    fn assumptions() -> Vec<String> {
        vec![
            "non-termination cannot be decided by this technique: a stuck worker is reported as inconclusive (exit 2), never as a violation (interpretation 12)".into(),
            "allocation bound = 64*len + 1 MiB for a single request (interpretation 11)".into(),
        ]
    }
    fn both_builds() -> bool {
        true
    }
    fn cross_build() -> bool {
        true
    }
    fn hard_alloc_cap() -> Option<usize> {
        Some(1 << 30)
    }
    fn random_cases(tier: Tier) -> u64 {
        tier.pick(60_000, 5_000_000)
    }
    fn strategy(_tier: Tier) -> BoxedStrategy<Case> {
        let files = super::repo_test_files();
        let source = prop_oneof![
            2 => prop_oneof![3 => proptest::collection::vec(any::<u8>(), 0..=0x60), 1 => proptest::collection::vec(any::<u8>(), 0..=4096)].prop_map(Source::Random),
            1 => (proptest::sample::select(vec![0x00u8, 0x10, 0x13, b'p']), proptest::collection::vec(any::<u8>(), 0..=0x60)).prop_map(|(t, mut v)| {
                v.insert(0, t);
                if t == b'p' && v.len() >= 4 {
                    v[..4].copy_from_slice(b"pack");
                }
                Source::Random(v)
            }),
            4 => proptest::sample::select(files).prop_map(Source::RepoFile),
            4 => content_strategy(64, 10, 8, false).prop_map(Source::Archive),
            2 => any::<u64>().prop_map(Source::Text),
            2 => any::<u64>().prop_map(Source::Pack),
            2 => any::<u64>().prop_map(Source::Arc),
            2 => any::<u64>().prop_map(Source::Aset),
            2 => any::<u64>().prop_map(Source::Asset),
        ];
        (source, proptest::collection::vec(mutation_strategy(), 0..=3)).prop_map(|(source, mutations)| Case { source, mutations }).boxed()
    }
    fn enumerate(tier: Tier, shard: u64, nshards: u64, f: &mut dyn FnMut(Case) -> bool) {
        let mut idx = 0u64;
        let mut emit = |c: Case| -> bool {
            let mine = idx % nshards == shard;
            idx += 1;
            !mine || f(c)
        };
        for name in super::repo_test_files() {
            let len = super::read_repo_test_file(&name).len();
            if len == 0 {
                continue;
            }
            let words = (len / 4).min(tier.pick(0x200, 0x4000));
            for w in 0..words {
                // selector that maps exactly onto word w of the (header_only = false) mapping
                let total = len / 4;
                let mut sel = (((w as u64) << 16) / total as u64) as u16;
                while ((sel as usize * total) >> 16) < w {
                    sel += 1;
                }
                for v in PALETTE {
                    for be in [false, true] {
                        if !emit(Case { source: Source::RepoFile(name.clone()), mutations: vec![Mutation::PlantU32 { pos: sel, value: Plant::Abs(v), be, header_only: false }] }) {
                            return;
                        }
                    }
                }
                let file_be = name.contains("Legacy") || name.contains("FE9");
                for d in [-4i8, -1, 0, 1, 4] {
                    if !emit(Case { source: Source::RepoFile(name.clone()), mutations: vec![Mutation::PlantU32 { pos: sel, value: Plant::Len(d), be: file_be, header_only: false }] }) {
                        return;
                    }
                }
                // values just above the data size: a pointer cell then points into the pointer/label tables
                for d in [-1i8, 1, 2, 3, 4] {
                    if !emit(Case { source: Source::RepoFile(name.clone()), mutations: vec![Mutation::PlantU32 { pos: sel, value: Plant::Data(d), be: file_be, header_only: false }] }) {
                        return;
                    }
                }
            }
            let maxcut = if tier == Tier::Quick { len.min(2048) } else { len };
            for cut in 0..maxcut {
                let mut sel = (((cut as u64) << 16) / (len as u64 + 1)) as u16;
                while ((sel as usize * (len + 1)) >> 16) < cut {
                    sel += 1;
                }
                if !emit(Case { source: Source::RepoFile(name.clone()), mutations: vec![Mutation::Truncate(sel)] }) {
                    return;
                }
            }
            // wrapping header triples
            for (np, nl) in [(4u32, 2u32), (0x4000_0000, 0), (0, 0x2000_0000), (0x3FFF_FFFF, 1), (0x8000_0001, 0x1000_0000), (1, 0x1FFF_FFFF)] {
                for target in [0u16, 4, 0x20, len as u16] {
                    for be in [false, true] {
                        if !emit(Case { source: Source::RepoFile(name.clone()), mutations: vec![Mutation::WrapHeader { np, nl, target, be }] }) {
                            return;
                        }
                    }
                }
            }
        }
        // pack entries: every (address, size) pair of the repository's pack file replaced by boundary pairs (big-endian),
        // in particular an empty entry pointing far outside the buffer
        {
            let name = "FE9Arc.bin".to_string();
            let bytes = super::read_repo_test_file(&name);
            if bytes.len() >= 8 && &bytes[..4] == b"pack" {
                let len = bytes.len();
                let count = u16::from_be_bytes([bytes[4], bytes[5]]) as usize;
                let total = len / 4;
                let exact = |w: usize| -> u16 {
                    let mut sel = (((w as u64) << 16) / total as u64) as u16;
                    while ((sel as usize * total) >> 16) < w {
                        sel += 1;
                    }
                    sel
                };
                for i in 0..count.min(64) {
                    let (aw, sw) = ((8 + 16 * i + 8) / 4, (8 + 16 * i + 12) / 4);
                    for addr in [Plant::Len(0), Plant::Len(1), Plant::Abs(0x7FFF_FFFF), Plant::Abs(0xFFFF_FFFF), Plant::Abs(0)] {
                        for size in [Plant::Abs(0), Plant::Abs(1), Plant::Len(0), Plant::Abs(0xFFFF_FFFF)] {
                            if !emit(Case {
                                source: Source::RepoFile(name.clone()),
                                mutations: vec![Mutation::PlantU32 { pos: exact(aw), value: addr.clone(), be: true, header_only: false }, Mutation::PlantU32 { pos: exact(sw), value: size.clone(), be: true, header_only: false }],
                            }) {
                                return;
                            }
                        }
                    }
                }
            }
        }
        // UTF-16 text archives whose data region ends in the middle of a code unit (odd length, no terminator)
        for tail in [vec![0x41u8, 0, 0x42, 0, 0], vec![0x41, 0, 0x42, 0, 0x43], vec![0x41, 0, 0x42, 0, 0x43, 0, 0], vec![0, 0, 0x41, 0, 0x42, 0, 0], vec![0x41, 0, 0x42]] {
            for be in [false, true] {
                let mut data = vec![b't', 0, 0, 0];
                data.extend_from_slice(&tail);
                let mut labels = std::collections::BTreeMap::new();
                labels.insert(4u32, vec!["K".to_string()]);
                let content = ArchiveContent { big_endian: be, data, cells: Default::default(), labels };
                if !emit(Case { source: Source::Archive(content), mutations: vec![] }) {
                    return;
                }
            }
        }
        // tiny data regions of every length 0..=7 (the aligned string readers step past the end of an unaligned region)
        for len in 0..=7usize {
            for fill in [vec![0u8], vec![0x41, 0], vec![0x41], vec![0, 0x41]] {
                for be in [false, true] {
                    let data: Vec<u8> = (0..len).map(|i| fill[i % fill.len()]).collect();
                    let mut labels = std::collections::BTreeMap::new();
                    if len >= 4 {
                        labels.insert(4u32, vec!["K".to_string()]);
                    }
                    if !emit(Case { source: Source::Archive(ArchiveContent { big_endian: be, data, cells: Default::default(), labels }), mutations: vec![] }) {
                        return;
                    }
                }
            }
        }
        // inputs of length 0..=8 over a few bytes, at every entry point
        for len in 0..=8usize {
            for fill in [0x00u8, 0xFF, 0x70] {
                if !emit(Case { source: Source::Random(vec![fill; len]), mutations: vec![] }) {
                    return;
                }
            }
        }
        for rest in [vec![], vec![0, 1], vec![0, 1, 0, 0], vec![0xFF, 0xFF, 0, 0], vec![0, 1, 0, 0, 0, 0, 0, 0, 0, 0, 0, 0x18, 0, 0, 0, 0x20, 0xFF, 0xFF, 0xFF, 0xF0, 0x41, 0, 0, 0, 0, 0, 0, 0]] {
            let mut v = b"pack".to_vec();
            v.extend(rest);
            if !emit(Case { source: Source::Random(v), mutations: vec![] }) {
                return;
            }
        }
    }
    fn exhaustive_note(tier: Tier) -> Option<String> {
        Some(format!("for every file under /repo/resources/test: each of 14 palette values (both endiannesses) and len+-4 in every 32-bit word of the first 2 KiB (64 KiB in thorough); every truncation length{}; 48 wrapping header triples; all-0x00/0xFF/0x70 inputs of length 0..=8; short 'pack' headers", if tier == Tier::Quick { " up to 2048" } else { "" }))
    }
    fn corpus(seed: u64) -> Vec<Vec<u8>> {
        let mut v = Vec::new();
        let arch = content_strategy(64, 10, 8, false);
        for i in 0..30u64 {
            let s = seed.wrapping_mul(1000).wrapping_add(i);
            v.push(source_bytes(&Source::Archive(gen_from(&arch, s))));
            v.push(source_bytes(&Source::Text(s)));
            v.push(source_bytes(&Source::Pack(s)));
            v.push(source_bytes(&Source::Arc(s)));
            v.push(source_bytes(&Source::Aset(s)));
            v.push(source_bytes(&Source::Asset(s)));
        }
        v.retain(|f| f.len() <= 4096);
        v
    }
    fn shrink(c: &Case) -> Vec<Case> {
        let mut v = Vec::new();
        for i in 0..c.mutations.len() {
            let mut m = c.mutations.clone();
            m.remove(i);
            v.push(Case { source: c.source.clone(), mutations: m });
        }
        if !matches!(c.source, Source::Random(_)) {
            v.push(Case { source: Source::Random(apply(source_bytes(&c.source), &c.mutations)), mutations: vec![] });
        }
        if let Source::Random(b) = &c.source {
            if b.len() > 1 {
                v.push(Case { source: Source::Random(b[..b.len() - 1].to_vec()), mutations: c.mutations.clone() });
                v.push(Case { source: Source::Random(b[..b.len() / 2].to_vec()), mutations: c.mutations.clone() });
            }
        }
        v
    }

    fn run(case: &Case, cx: &mut Cx) {
        let bytes = apply(source_bytes(&case.source), &case.mutations);
        let len = bytes.len();
        let planted = case.mutations.iter().any(|m| matches!(m, Mutation::PlantU32 { .. } | Mutation::PlantU16 { .. } | Mutation::WrapHeader { .. }));
        let mut passed_gate = false;
        let mut p = Probe { cx, len, outcome: 0 };

        // ---- bin archive, both endiannesses
        for be in [false, true] {
            let endian = if be { Endian::Big } else { Endian::Little };
            let over = header_overdeclares(&bytes, be);
            let r = match p.call(if be { "BinArchive::from_bytes(BE)" } else { "BinArchive::from_bytes(LE)" }, || BinArchive::from_bytes(&bytes, endian)) {
                Some(r) => r,
                None => return,
            };
            if over == Some(false) {
                passed_gate = true;
            }
            match r {
                Ok(a) => {
                    if over == Some(true) || over.is_none() {
                        p.cx.fail("overdeclaring-header-rejected", format!("BinArchive::from_bytes({endian:?}) accepted a {len}-byte buffer whose header declares more than it holds (or that is shorter than a header)"));
                        return;
                    }
                    p.cx.label(if be { "accepted:bin-BE" } else { "accepted:bin-LE" });
                    if p.call("BinArchive::serialize", || a.serialize()).is_none() {
                        return;
                    }
                    if !be {
                        // the library finds "AnimClipNameTable" by iterating a HashMap: with the label on several addresses the
                        // outcome depends on the hash state and is kept out of the cross-build digest
                        let ambiguous = a.all_labels().iter().filter(|(_, x)| x == "AnimClipNameTable").count() > 1;
                        let before = p.outcome;
                        match p.call("ASetFile::from_archive", || ASetFile::from_archive(&a)) {
                            Some(Ok(s)) => {
                                p.cx.label("accepted:aset");
                                if p.call("ASetFile::serialize", || s.serialize()).is_none() {
                                    return;
                                }
                            }
                            Some(Err(_)) => {}
                            None => return,
                        }
                        if ambiguous {
                            p.outcome = before;
                            p.cx.label("aset-lookup-ambiguous(duplicate AnimClipNameTable labels)");
                        }
                        match p.call("AssetBinary::from_archive", || AssetBinary::from_archive(&a)) {
                            Some(Ok(s)) => {
                                p.cx.label_if(!s.specs.is_empty(), "accepted:asset-binary-with-specs");
                                if p.call("AssetBinary::serialize", || s.serialize()).is_none() {
                                    return;
                                }
                            }
                            Some(Err(_)) => {}
                            None => return,
                        }
                    }
                }
                Err(_) => {}
            }
            // ---- text archive, both encodings
            for (fname, format) in [("Unicode", TextArchiveFormat::Unicode), ("ShiftJIS", TextArchiveFormat::ShiftJIS)] {
                let _ = fname;
                match p.call("TextArchive::from_bytes", || TextArchive::from_bytes(&bytes, format, endian)) {
                    Some(Ok(t)) => {
                        if over != Some(false) {
                            p.cx.fail("overdeclaring-header-rejected", format!("TextArchive::from_bytes({format:?}, {endian:?}) accepted a {len}-byte buffer whose header declares more than it holds"));
                            return;
                        }
                        p.cx.label("accepted:text-archive");
                        if p.call("TextArchive::serialize", || t.serialize()).is_none() {
                            return;
                        }
                    }
                    Some(Err(_)) => {}
                    None => return,
                }
            }
        }
        // ---- 3DS arc
        // (an archive carrying the label Count or Info on several addresses makes the library's label lookup depend on the
        //  hash state: the Ok/Err outcome of arc::from_bytes is then excluded from the cross-build digest)
        let ambiguous_arc = BinArchive::from_bytes(&bytes, Endian::Little)
            .map(|a| {
                let l = a.all_labels();
                ["Count", "Info"].iter().any(|n| l.iter().filter(|(_, x)| x == n).count() > 1)
            })
            .unwrap_or(false);
        let before_arc = p.outcome;
        match p.call("arc::from_bytes", || arc::from_bytes(&bytes)) {
            Some(Ok(m)) => {
                if header_overdeclares(&bytes, false) != Some(false) {
                    p.cx.fail("overdeclaring-header-rejected", format!("arc::from_bytes accepted a {len}-byte buffer whose header declares more than it holds"));
                    return;
                }
                p.cx.label_if(!m.is_empty(), "accepted:arc-with-files");
            }
            Some(Err(_)) => {}
            None => return,
        }
        if ambiguous_arc {
            p.outcome = before_arc;
            p.cx.label("arc-lookup-ambiguous(duplicate Count/Info labels)");
        }
        // ---- GameCube/Wii pack
        let pack_over = pack_overdeclares(&bytes);
        match p.call("fe9_arc::parse", || fe9_arc::parse(&bytes)) {
            Some(Ok(m)) => {
                if pack_over == Some(true) {
                    p.cx.fail("overdeclaring-entry-rejected", format!("fe9_arc::parse accepted a {len}-byte buffer whose count or entries declare more than it holds"));
                    return;
                }
                passed_gate = true;
                p.cx.label_if(!m.is_empty(), "accepted:pack-with-files");
                if p.call("fe9_arc::serialize", || fe9_arc::serialize(&m)).is_none() {
                    return;
                }
            }
            Some(Err(_)) => {
                if pack_over.is_some() {
                    passed_gate = true;
                }
            }
            None => return,
        }
        let outcome = p.outcome;
        cx.mix(outcome);
        if passed_gate || planted {
            cx.nontrivial();
        }
        cx.label_if(passed_gate, "passed-a-size-gate");
        cx.label_if(planted, "planted-field");
        cx.label_if(header_overdeclares(&bytes, false) == Some(true) || header_overdeclares(&bytes, true) == Some(true), "header-overdeclares");
        cx.label(match &case.source {
            Source::Random(_) => "src:random",
            Source::RepoFile(_) => "src:repo-file",
            Source::Archive(_) => "src:gen-bin-archive",
            Source::Text(_) => "src:gen-text-archive",
            Source::Pack(_) => "src:gen-pack",
            Source::Arc(_) => "src:gen-arc",
            Source::Aset(_) => "src:gen-aset",
            Source::Asset(_) => "src:gen-asset-binary",
        });
    }
}
