//! C02 — bin archive serialization is canonical, deterministic and byte-stable.
use crate::engine::prop::{Cx, Prop, Tier};
use crate::gen::archive::{build, content_strategy, ArchiveContent, Cell};
use crate::refimpl::refbin;
use mila::BinArchive;
use proptest::prelude::*;
use serde::{Deserialize, Serialize};
use std::collections::BTreeMap;

pub struct C02;

#[derive(Clone, Debug, Hash, Serialize, Deserialize)]
pub struct Case {
    pub content: ArchiveContent,
    /// call orders used to build the same content (>= 4)
    pub order_seeds: Vec<u64>,
    pub layout_seed: u64,
}

fn first_diff(a: &[u8], b: &[u8]) -> String {
    let i = a.iter().zip(b.iter()).position(|(x, y)| x != y).unwrap_or(a.len().min(b.len()));
    format!("lengths {} vs {}, first difference at byte {i:#x}: {:02x?} vs {:02x?}", a.len(), b.len(), &a[i.min(a.len())..(i + 12).min(a.len())], &b[i.min(b.len())..(i + 12).min(b.len())])
}

impl Prop for C02 {
    type Case = Case;
    const ID: &'static str = "C02";
    fn rule() -> String {
        "Contents as in C01 without c-strings, biased to repeated label names on several addresses, several labels per address, strings equal to label names; both endiannesses. \
         (a) serialize(build(c)) must equal, byte for byte, the canonical image produced by an independent reference writer (header totals, internal pointers by ascending address, then string \
         pointers grouped by string in first-use order, labels by address (LE) or by name list (BE), text = label names then strings, every distinct string once, reserved header bytes zero). \
         Among big-endian buckets with identical name lists the order is read from the produced table (any fixed tie-break is accepted, interpretation 3). (b) determinism: the same content built in >= 4 \
         different call orders (fresh archives = fresh hash states, one of them on another thread), each serialized twice, must give one byte string; per-case output digests are also compared \
         between the worker processes of the two builds. (c) byte stability: serialize(from_bytes(x)) == x. (d) a conforming non-canonical layout of the same content (reference writer) parsed and \
         re-serialized gives the canonical bytes. Thin slices use large archives (up to 24 000 bytes / 1 200 cells / 500 labels; thorough 120 000 / 20 000 / 3 000) and strings of up to 36 KiB; the string pool holds proper endings and beginnings of other pool strings. One case in three is preceded, on the same thread, by a serialization of the same content plus one unencodable string (fails part-way; outcome ignored): the bytes must not depend on it. Non-trivial: >= 2 string cells or >= 2 labels. Distinct = distinct case value."
            .into()
    }
    fn assumptions() -> Vec<String> {
        vec![
            "refbin::write_canonical is the canonical form of the statement; 'by name' = Rust str ordering of a bucket's name list (interpretation 4)".into(),
            "hash-state nondeterminism is probabilistic: each content goes through >= 5 fresh hash states in-process and 2 processes".into(),
        ]
    }
    fn both_builds() -> bool {
        true
    }
    fn cross_build() -> bool {
        true
    }
    fn random_cases(tier: Tier) -> u64 {
        tier.pick(60_000, 2_500_000)
    }
    fn strategy(tier: Tier) -> BoxedStrategy<Case> {
        let (max_len, max_cells, max_labels) = tier.pick((64, 10, 10), (1024, 60, 60));
        let small = content_strategy(48, 8, 10, false);
        let big = content_strategy(max_len, max_cells, max_labels, false);
        let (l_len, l_cells, l_labels) = tier.pick((24_000, 1_200, 500), (120_000, 20_000, 3_000));
        let large = content_strategy(l_len, l_cells, l_labels, false);
        (prop_oneof![60 * tier.pick(1u32, 16) => small, 20 * tier.pick(1u32, 16) => big, 1 => large], proptest::collection::vec(any::<u64>(), 4..6), any::<u64>())
            .prop_map(|(content, order_seeds, layout_seed)| Case { content, order_seeds, layout_seed })
            .boxed()
    }
    fn enumerate(_tier: Tier, shard: u64, nshards: u64, f: &mut dyn FnMut(Case) -> bool) {
        // the same label name (and the same name list) on k addresses, both endians; strings equal to label names
        let mut idx = 0u64;
        for be in [false, true] {
            for k in [1u32, 2, 3, 4, 5, 6, 7, 8, 21, 33, 40, 64, 100] {
                for variant in 0..6u32 {
                    if k > 8 && variant > 3 {
                        continue;
                    }
                    let mine = idx % nshards == shard;
                    idx += 1;
                    if !mine {
                        continue;
                    }
                    let len = (k as usize) * 4 + if variant == 5 { 2 } else { 0 };
                    let mut labels: BTreeMap<u32, Vec<String>> = BTreeMap::new();
                    let mut cells = BTreeMap::new();
                    for i in 0..k {
                        let names = match variant {
                            0 => vec!["same".to_string()],
                            1 => vec!["same".to_string(), "b".to_string()],
                            2 => vec![if i % 2 == 0 { "same" } else { "other" }.to_string()],
                            3 => vec![format!("n{}", (k - i) % 3)],
                            _ => vec!["same".to_string(), format!("z{}", i % 2)],
                        };
                        labels.insert(i * 4, names);
                        if variant >= 2 {
                            cells.insert(i * 4, if i % 3 == 0 { Cell::Pointer((len as u32 - i * 4) & !3) } else { Cell::Str(if i % 2 == 0 { "same" } else { "str" }.to_string()) });
                        }
                    }
                    if variant == 4 {
                        labels.insert(len as u32, vec!["same".to_string(), "z0".to_string()]);
                    }
                    let content = ArchiveContent { big_endian: be, data: (0..len).map(|i| i as u8 ^ 0x5A).collect(), cells, labels }.normalise();
                    if !f(Case { content, order_seeds: vec![1, 2, 3, 4, 5, 6, 7, 8], layout_seed: idx }) {
                        return;
                    }
                }
            }
        }
    }
    fn exhaustive_note(_tier: Tier) -> Option<String> {
        Some("fixed family: one label name (or name list) repeated on 1..=8 addresses in 6 variants, and on 21/33/40/64/100 addresses, x both endiannesses, each built in 8 call orders".into())
    }

    fn run(case: &Case, cx: &mut Cx) {
        let c = &case.content;
        if c.has_cstr() {
            return; // outside the property's quantifier (never generated)
        }
        let mut outputs: Vec<Vec<u8>> = Vec::new();
        let mut distinct_orders = 0;
        // "whatever the call history": one case in three is preceded, on this thread, by a serialization that fails part-way
        let prior_failure = case.layout_seed % 3 == 0;
        if prior_failure {
            super::prior::failing_bin_serialize(c, case.layout_seed);
        }
        for (i, seed) in case.order_seeds.iter().enumerate() {
            let one = || -> Result<(Vec<u8>, Vec<u8>), String> {
                let a = build(c, *seed, i % 2 == 1).map_err(|e| format!("build: {}", e.0))?;
                let s1 = a.serialize().map_err(|e| format!("serialize: {e}"))?;
                let s2 = a.serialize().map_err(|e| format!("serialize (second call): {e}"))?;
                Ok((s1, s2))
            };
            let r = if i == 1 {
                // a fresh thread: a different thread-local hash seed sequence
                match cx.call(|| std::thread::scope(|sc| sc.spawn(one).join())) {
                    Some(Ok(r)) => r,
                    Some(Err(_)) => {
                        cx.fail_kind("panic", "thread-panicked", "building/serializing on a second thread panicked");
                        return;
                    }
                    None => return,
                }
            } else {
                match cx.call(one) {
                    Some(r) => r,
                    None => return,
                }
            };
            match r {
                Ok((s1, s2)) => {
                    if !cx.check(s1 == s2, "deterministic-repeated-serialize", || format!("two serializations of the same archive instance differ: {}", first_diff(&s1, &s2))) {
                        return;
                    }
                    if !outputs.contains(&s1) {
                        distinct_orders += 1;
                    }
                    outputs.push(s1);
                }
                Err(e) => {
                    cx.fail("build-and-serialize-ok", e);
                    return;
                }
            }
        }
        let x = outputs[0].clone();
        for (i, o) in outputs.iter().enumerate().skip(1) {
            if !cx.check(*o == x, "deterministic-across-call-orders", || {
                format!("equal content built in call order #{i} serializes differently from call order #0: {}", first_diff(o, &x))
            }) {
                return;
            }
        }
        let _ = distinct_orders;
        cx.mix_bytes(&x);
        // (a) canonical form; tie order among big-endian buckets with equal name lists is read from the output
        let order: Option<Vec<u32>> = if c.big_endian {
            match refbin::parse(&x, true) {
                Ok(img) => {
                    let mut o: Vec<u32> = Vec::new();
                    for (a, _, _) in &img.labels {
                        if !o.contains(a) {
                            o.push(*a);
                        }
                    }
                    Some(o)
                }
                Err(e) => {
                    cx.fail("canonical-image", format!("reference reader cannot read the output: {e}"));
                    return;
                }
            }
        } else {
            None
        };
        let canonical = refbin::write_canonical(c, order.as_deref());
        if !cx.check(x == canonical, "canonical-image", || format!("serialize output differs from the canonical image of the content: {}", first_diff(&x, &canonical))) {
            return;
        }
        // (c) byte stability
        match cx.call(|| BinArchive::from_bytes(&x, c.endian()).and_then(|a| a.serialize())) {
            Some(Ok(y)) => {
                if !cx.check(y == x, "byte-stable-reserialize", || format!("serialize(from_bytes(x)) != x: {}", first_diff(&y, &x))) {
                    return;
                }
            }
            Some(Err(e)) => {
                cx.fail("byte-stable-reserialize", format!("parse + re-serialize of a canonical file failed: {e}"));
                return;
            }
            None => return,
        }
        // (d) a non-canonical conforming layout re-serializes to the canonical bytes
        let alt = refbin::write_layout(c, case.layout_seed);
        match cx.call(|| BinArchive::from_bytes(&alt, c.endian()).and_then(|a| a.serialize())) {
            Some(Ok(y)) => {
                if !cx.check(y == x, "equal-content-equal-bytes", || format!("a conforming image of the same content re-serializes to different bytes: {}", first_diff(&y, &x))) {
                    return;
                }
            }
            Some(Err(e)) => {
                cx.fail("equal-content-equal-bytes", format!("parse + re-serialize of a conforming image failed: {e}"));
                return;
            }
            None => return,
        }
        let nstr = c.cells.values().filter(|x| matches!(x, Cell::Str(_))).count();
        let nlab: usize = c.labels.values().map(|v| v.len()).sum();
        if nstr >= 2 || nlab >= 2 {
            cx.nontrivial();
        }
        cx.label_if(c.big_endian, "big-endian");
        cx.label_if(prior_failure, "after-a-failed-serialize-on-this-thread");
        let lists: Vec<&Vec<String>> = c.labels.values().collect();
        let tie = lists.iter().enumerate().any(|(i, l)| lists[..i].contains(l));
        cx.label_if(tie, "equal-name-lists-on-several-addresses");
        cx.label_if(tie && c.big_endian, "big-endian-tie");
        cx.label_if(c.labels.values().any(|v| v.len() > 1), "multi-label-address");
        cx.label_if(c.cells.values().any(|x| matches!(x, Cell::Str(s) if c.labels.values().any(|v| v.contains(s)))), "string-equals-label-name");
        cx.label_if(c.len() % 4 != 0, "unaligned-length");
        cx.label_if(c.len() > 4096, "data>4KiB");
        cx.label_if(c.cells.len() > 255, ">255-annotated-cells");
        cx.label_if(alt != x, "alt-layout-differs");
    }
}
