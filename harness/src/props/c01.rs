//! C01 — bin archive content survives serialize -> parse, for any conforming layout.
use crate::engine::prop::{Cx, Prop, Tier};
use crate::gen::archive::{build, content_strategy, cstring_pool, observe, ArchiveContent, Cell};
use crate::gen::strings::sjis_decode;
use crate::refimpl::refbin::{self, RefCell};
use mila::BinArchive;
use proptest::prelude::*;
use serde::{Deserialize, Serialize};
use std::collections::BTreeMap;

pub struct C01;

#[derive(Clone, Debug, Hash, Serialize, Deserialize)]
pub struct Case {
    pub content: ArchiveContent,
    /// call order used to build the archive through the API (0 = natural order)
    pub order_seed: u64,
    pub detours: bool,
    /// conforming alternative layout fed to the parser (third clause)
    pub layout_seed: u64,
}

/// compares what the read API shows with the content; `pool` = padded c-string pool length expected after a round trip
pub fn compare_observed(cx: &mut Cx, what: &str, a: &BinArchive, c: &ArchiveContent, pool: usize) -> bool {
    let obs = match observe(a) {
        Ok(o) => o,
        Err(e) => {
            cx.fail("observe", format!("{what}: {e}"));
            return false;
        }
    };
    let len = c.len();
    // pool == 0: the size must be exactly the data length. Otherwise `pool` is the padded size of the distinct c-strings as the
    // library lays them out today; the statement only requires the pool to be "included", so any pool that holds every c-string
    // (at most one copy per cell) and keeps the tables aligned is accepted.
    let upper: usize = c.cells.values().map(|x| if let Cell::CStr(s) = x { crate::gen::strings::sjis_encode(s).map(|b| b.len() + 1).unwrap_or(0) } else { 0 }).sum::<usize>() + 3;
    let size_ok = if pool == 0 { obs.size == len } else { obs.size > len && obs.size - len <= upper.max(pool) };
    if !cx.check(size_ok, "same-size", || format!("{what}: size {} but content has {} data bytes (+ a c-string pool of at most {} bytes)", obs.size, len, if pool == 0 { 0 } else { upper.max(pool) })) {
        return false;
    }
    let pool = obs.size - len;
    // raw bytes outside annotated cells
    for i in 0..len {
        let cell = (i as u32) & !3;
        if c.cells.contains_key(&cell) && (cell as usize + 4 <= len) {
            continue;
        }
        if obs.bytes[i] != c.data[i] {
            cx.fail("raw-bytes", format!("{what}: byte {i} is {:#04x}, content has {:#04x}", obs.bytes[i], c.data[i]));
            return false;
        }
    }
    let want_strings: BTreeMap<usize, String> = c.cells.iter().filter_map(|(a, x)| if let Cell::Str(s) = x { Some((*a as usize, s.clone())) } else { None }).collect();
    if !cx.check(obs.strings == want_strings, "strings", || format!("{what}: strings {:?}, content {:?}", obs.strings, want_strings)) {
        return false;
    }
    let mut want_ptr_cells: Vec<usize> = Vec::new();
    for (addr, x) in &c.cells {
        let ad = *addr as usize;
        match x {
            Cell::Pointer(t) => {
                want_ptr_cells.push(ad);
                if !cx.check(obs.pointers.get(&ad) == Some(&(*t as usize)), "pointers", || format!("{what}: pointer at {ad} is {:?}, content has {t}", obs.pointers.get(&ad))) {
                    return false;
                }
            }
            Cell::CStr(s) => {
                want_ptr_cells.push(ad);
                if pool > 0 {
                    // after a round trip a c-string cell is a pointer into the pool
                    let p = obs.pointers.get(&ad).copied();
                    if !cx.check(matches!(p, Some(v) if v >= len && v < len + pool), "c-string-pointer-in-pool", || format!("{what}: c-string cell {ad} has pointer {p:?}, pool is [{len}, {})", len + pool)) {
                        return false;
                    }
                    match a.read_c_string(ad) {
                        Ok(Some(got)) => {
                            if !cx.check(&got == s, "c-strings", || format!("{what}: read_c_string({ad}) = {got:?}, content has {s:?}")) {
                                return false;
                            }
                        }
                        other => {
                            cx.fail("c-strings", format!("{what}: read_c_string({ad}) = {other:?}, content has {s:?}"));
                            return false;
                        }
                    }
                }
            }
            Cell::Str(_) => {}
        }
    }
    if pool > 0 || !c.has_cstr() {
        let got_cells: Vec<usize> = obs.pointers.keys().copied().collect();
        if !cx.check(got_cells == want_ptr_cells, "pointers", || format!("{what}: pointer cells {got_cells:?}, content has {want_ptr_cells:?}")) {
            return false;
        }
    }
    let want_labels: BTreeMap<usize, Vec<String>> = c.labels.iter().map(|(a, v)| (*a as usize, v.clone())).collect();
    cx.check(obs.labels == want_labels, "labels-per-address-order", || format!("{what}: labels {:?}, content {:?}", obs.labels, want_labels))
}

/// oracle (b): the serialized image examined by the independent reader
pub fn check_image(cx: &mut Cx, bytes: &[u8], c: &ArchiveContent) -> bool {
    let img = match refbin::parse(bytes, c.big_endian) {
        Ok(i) => i,
        Err(e) => {
            cx.fail("image-well-formed", format!("reference reader cannot read the serialized image: {e}"));
            return false;
        }
    };
    if !cx.check(img.defects.is_empty(), "image-well-formed", || format!("serialized image is not well-formed: {:?}", img.defects)) {
        return false;
    }
    let len = c.len();
    let (pool, _) = cstring_pool(c);
    let pool_upper: usize = c.cells.values().map(|x| if let Cell::CStr(s) = x { crate::gen::strings::sjis_encode(s).map(|b| b.len() + 1).unwrap_or(0) } else { 0 }).sum::<usize>() + 3;
    let ds_ok = if pool.is_empty() { img.data.len() == len } else { img.data.len() > len && img.data.len() - len <= pool_upper.max(pool.len()) };
    if !cx.check(ds_ok, "image-data-size", || format!("header data size {} for {} data bytes + a c-string pool (library layout: {} bytes, upper bound {})", img.data.len(), len, pool.len(), pool_upper)) {
        return false;
    }
    let pool_len = img.data.len() - len;
    if len % 4 == 0 {
        if !cx.check(img.data.len() % 4 == 0, "image-tables-aligned", || format!("data is word-aligned but the tables start at unaligned offset {}", 0x20 + img.data.len())) {
            return false;
        }
    }
    let nlabels: usize = c.labels.values().map(|v| v.len()).sum();
    if !cx.check(img.np == c.cells.len() && img.nl == nlabels, "image-header-totals", || format!("header counts np={} nl={}, content has {} cells {} labels", img.np, img.nl, c.cells.len(), nlabels)) {
        return false;
    }
    for (addr, x) in &c.cells {
        let got = img.cells.get(addr);
        let ok = match (x, got) {
            (Cell::Pointer(t), Some(RefCell::Pointer(v))) => v == t,
            (Cell::Str(s), Some(RefCell::Str(g, _))) => g == s,
            (Cell::CStr(s), Some(RefCell::Pointer(v))) => {
                let v = *v as usize;
                v >= len
                    && v < len + pool_len
                    && img.data[v..].iter().position(|b| *b == 0).map(|n| sjis_decode(&img.data[v..v + n]).as_deref() == Some(s.as_str())).unwrap_or(false)
            }
            _ => false,
        };
        if !cx.check(ok, "image-content", || format!("cell {addr}: image has {got:?}, content has {x:?}")) {
            return false;
        }
    }
    for i in 0..len {
        let cell = (i as u32) & !3;
        if c.cells.contains_key(&cell) {
            continue;
        }
        if img.data[i] != c.data[i] {
            cx.fail("image-content", format!("image data byte {i} is {:#04x}, content has {:#04x}", img.data[i], c.data[i]));
            return false;
        }
    }
    let want: BTreeMap<u32, Vec<String>> = c.labels.clone();
    cx.check(img.labels_by_address() == want, "image-content", || format!("image labels {:?}, content {:?}", img.labels_by_address(), want))
}

impl Prop for C01 {
    type Case = Case;
    const ID: &'static str = "C01";
    fn rule() -> String {
        "An archive content (endianness, data of any length, <=1 pointer/string/c-string per aligned cell, pointer targets <= size, labels at any address <= size incl. the end and \
         unaligned ones, strings from the Shift-JIS-lossless domain with repeats and label/string collisions) is built through the public API in a generated call order (with optional \
         write-delete-rewrite detours), serialized, and (a) re-parsed with BinArchive::from_bytes and compared cell by cell through the read API (size = data + padded c-string pool; raw bytes outside \
         annotated cells; pointers; strings; c-strings via read_c_string with the pointer inside the pool; labels per address in order via all_labels/read_labels); (b) the image is read by an \
         independent reference reader which must find it well-formed (header totals exact, every table entry and string inside the file, tables aligned when the data is) and must recover the same content; \
         (c) for contents without c-strings a second, conforming image of the same content (pointer and label tables permuted, strings reordered, duplicated or shared incl. tail sharing) written by the \
         reference writer is parsed by mila and must give the same content. Bounded-exhaustive tier: all contents over lengths {0,4,6,8}, <=2 cells (9 annotation choices each), <=2 labels over 4 addresses x 3 names, both endians. \
         Thin slices (1 case in 81; thorough 1 in 1 281) use large archives: up to 24 000 bytes / 1 200 annotated cells / 500 labels (thorough 120 000 / 20 000 / 3 000); 1 string in ~300 is 150 bytes..36 KiB long with double-byte characters on every alignment. Non-trivial: >=2 annotations of >=2 kinds, or a c-string, or a label at the end, or unaligned length. Distinct = distinct case value."
            .into()
    }
    fn assumptions() -> Vec<String> {
        vec![
            "encoding_rs is the Shift-JIS codec; the lossless domain is computed from it (7.5k code points)".into(),
            "refbin (harness/src/refimpl/refbin.rs) defines the file format".into(),
            "same size is read as data length + 4-byte-padded pool of the distinct c-strings (interpretation 1)".into(),
        ]
    }
    fn both_builds() -> bool {
        true
    }
    fn random_cases(tier: Tier) -> u64 {
        tier.pick(200_000, 8_000_000)
    }
    fn strategy(tier: Tier) -> BoxedStrategy<Case> {
        let (max_len, max_cells, max_labels) = tier.pick((64, 10, 8), (2048, 60, 40));
        let small = content_strategy(64, 10, 8, true);
        let big = content_strategy(max_len, max_cells, max_labels, true);
        // a thin slice of large archives: thousands of bytes, hundreds to thousands of annotated cells and labels (tables and text
        // section beyond 8-bit and, in the thorough tier, 16-bit counts and offsets)
        let (l_len, l_cells, l_labels) = tier.pick((24_000, 1_200, 500), (120_000, 20_000, 3_000));
        let large = content_strategy(l_len, l_cells, l_labels, true);
        (prop_oneof![60 * tier.pick(1u32, 16) => small, 20 * tier.pick(1u32, 16) => big, 1 => large], prop_oneof![1 => Just(0u64), 4 => any::<u64>()], any::<bool>(), any::<u64>())
            .prop_map(|(content, order_seed, detours, layout_seed)| Case { content, order_seed, detours, layout_seed })
            .boxed()
    }
    fn enumerate(_tier: Tier, shard: u64, nshards: u64, f: &mut dyn FnMut(Case) -> bool) {
        let names = ["a", "\u{FF71}", "\u{8868}"];
        let mut idx = 0u64;
        for be in [false, true] {
            for len in [0usize, 4, 6, 8] {
                let ncells = len / 4;
                let mut cell_opts: Vec<Option<Cell>> = vec![None, Some(Cell::Pointer(0)), Some(Cell::Pointer(len as u32))];
                for n in names {
                    cell_opts.push(Some(Cell::Str(n.to_string())));
                    cell_opts.push(Some(Cell::CStr(n.to_string())));
                }
                let addrs: Vec<u32> = {
                    let mut v = vec![0u32, len as u32];
                    if len >= 4 {
                        v.push(4);
                        v.push(1);
                    }
                    v.sort();
                    v.dedup();
                    v
                };
                let mut label_sets: Vec<Vec<(u32, &str)>> = vec![vec![]];
                for a in &addrs {
                    for n in names {
                        label_sets.push(vec![(*a, n)]);
                    }
                }
                for a in &addrs {
                    for n in names {
                        for b in &addrs {
                            for m in names {
                                label_sets.push(vec![(*a, n), (*b, m)]);
                            }
                        }
                    }
                }
                let combos = cell_opts.len().pow(ncells as u32);
                for combo in 0..combos {
                    for ls in &label_sets {
                        let mine = idx % nshards == shard;
                        idx += 1;
                        if !mine {
                            continue;
                        }
                        let mut cells = BTreeMap::new();
                        let mut x = combo;
                        for ci in 0..ncells {
                            if let Some(c) = &cell_opts[x % cell_opts.len()] {
                                cells.insert(ci as u32 * 4, c.clone());
                            }
                            x /= cell_opts.len();
                        }
                        let mut labels: BTreeMap<u32, Vec<String>> = BTreeMap::new();
                        for (a, n) in ls {
                            labels.entry(*a).or_default().push(n.to_string());
                        }
                        let data: Vec<u8> = (0..len).map(|i| 0xA0 + i as u8).collect();
                        let content = ArchiveContent { big_endian: be, data, cells, labels };
                        if !f(Case { content, order_seed: combo as u64 + 1, detours: combo % 2 == 0, layout_seed: idx }) {
                            return;
                        }
                    }
                }
            }
        }
    }
    fn exhaustive_note(_tier: Tier) -> Option<String> {
        Some("all contents with data length in {0,4,6,8}, every combination of {none, pointer to 0, pointer to end, string x3, c-string x3} per cell, and 0, 1 or 2 labels over addresses {0,1,4,end} x 3 names (ASCII, half-width kana, kanji with 0x5C trail byte), both endiannesses".into())
    }

    fn run(case: &Case, cx: &mut Cx) {
        let c = &case.content;
        let built = match cx.call(|| build(c, case.order_seed, case.detours)) {
            Some(Ok(a)) => a,
            Some(Err(e)) => {
                cx.fail("build", format!("the public API rejected a step while building the content: {}", e.0));
                return;
            }
            None => return,
        };
        // before serialization the read API must already show the content (c-strings are pending: pool = 0)
        if !compare_observed(cx, "as built", &built, c, 0) {
            return;
        }
        // one case in four is preceded, on this thread, by a serialization that fails part-way (its outcome is ignored)
        let prior_failure = case.layout_seed % 4 == 1;
        if prior_failure {
            super::prior::failing_bin_serialize(c, case.layout_seed);
        }
        cx.label_if(prior_failure, "after-a-failed-serialize-on-this-thread");
        let bytes = match cx.call(|| built.serialize()) {
            Some(Ok(b)) => b,
            Some(Err(e)) => {
                cx.fail("serialize-ok", format!("serialize failed: {e}"));
                return;
            }
            None => return,
        };
        cx.mix_bytes(&bytes);
        let (pool, _) = cstring_pool(c);
        // (a) round trip through the library
        match cx.call(|| BinArchive::from_bytes(&bytes, c.endian())) {
            Some(Ok(re)) => {
                if !compare_observed(cx, "after serialize -> from_bytes", &re, c, pool.len()) {
                    return;
                }
            }
            Some(Err(e)) => {
                cx.fail("reparse-ok", format!("from_bytes rejected the archive's own serialization: {e}"));
                return;
            }
            None => return,
        }
        // (b) independent reader
        if !check_image(cx, &bytes, c) {
            return;
        }
        // (c) layout independence
        if !c.has_cstr() {
            let alt = refbin::write_layout_mode(c, case.layout_seed, case.layout_seed % 4 == 2);
            let canonical = refbin::write_canonical(c, None);
            cx.label_if(alt != canonical, "layout-differs-from-canonical");
            match cx.call(|| BinArchive::from_bytes(&alt, c.endian())) {
                Some(Ok(a)) => {
                    if !compare_observed(cx, "parsing a conforming alternative layout", &a, c, 0) {
                        return;
                    }
                }
                Some(Err(e)) => {
                    cx.fail("alternative-layout-accepted", format!("from_bytes rejected a conforming image (permuted tables / moved strings): {e}"));
                    return;
                }
                None => return,
            }
        }
        // classification
        let label_at_end = c.labels.contains_key(&(c.len() as u32));
        if (c.annotation_count() >= 2 && c.kinds() >= 2) || c.has_cstr() || label_at_end || c.len() % 4 != 0 {
            cx.nontrivial();
        }
        cx.label_if(c.big_endian, "big-endian");
        cx.label_if(c.has_cstr(), "c-string");
        cx.label_if(c.has_cstr() && c.has_str(), "c-string+string");
        cx.label_if(label_at_end, "label-at-end");
        cx.label_if(c.len() % 4 != 0, "unaligned-length");
        cx.label_if(c.labels.values().any(|v| v.len() > 1), "multi-label-address");
        cx.label_if(c.labels.keys().any(|a| a % 4 != 0), "unaligned-label");
        cx.label_if(c.len() == 0, "empty-data");
        cx.label_if(c.len() > 4096, "data>4KiB");
        cx.label_if(c.cells.len() > 255, ">255-annotated-cells");
        cx.label_if(c.cells.len() > 65_535, ">65535-annotated-cells");
        cx.label_if(c.labels.values().map(|v| v.len()).sum::<usize>() > 255, ">255-labels");
        let strs: Vec<&String> = c.cells.values().filter_map(|x| if let Cell::Str(s) = x { Some(s) } else { None }).collect();
        let shared = strs.iter().enumerate().any(|(i, s)| strs[..i].contains(s)) || strs.iter().any(|s| c.labels.values().any(|v| v.contains(s)));
        cx.label_if(shared, "shared-string");
    }
}
