//! C03 — allocate / deallocate / truncate relocate every annotation consistently.
//! Model-based: every history is applied to the real archive and to a BTreeMap model that
//! implements the statement literally; the full observable state is compared after every step.
use crate::engine::prop::{Cx, Prop, Tier};
use crate::gen::archive::{build, content_strategy, observe, ArchiveContent, Cell};
use crate::gen::strings::{archive_string, sjis_decode};
use crate::refimpl::refbin::{self, RefCell};
use mila::{BinArchive, BinArchiveWriter};
use proptest::prelude::*;
use serde::{Deserialize, Serialize};
use std::collections::{BTreeMap, BTreeSet};

pub struct C03;

#[derive(Clone, Copy, Debug, Hash, Serialize, Deserialize)]
pub enum Addr {
    /// selector resolved against the current size: mostly cell boundaries in 0..=size+4, sometimes unaligned
    Sel(u16),
    Exact(u64),
}
#[derive(Clone, Copy, Debug, Hash, Serialize, Deserialize)]
pub enum Size {
    /// index into the size palette
    Pal(u8),
    Exact(u64),
    /// usize::MAX - k  (address + size overflows)
    Huge(u8),
}

#[derive(Clone, Debug, Hash, Serialize, Deserialize)]
pub enum Op {
    Allocate { addr: Addr, n: Size, ge: bool },
    AllocateAtEnd { n: Size },
    /// BinArchiveWriter::allocate at cursor `pos`
    WriterAllocate { pos: Addr, n: Size, ge: bool },
    Deallocate { addr: Addr, n: Size, ge: bool },
    Truncate { addr: Addr },
    WriteString { addr: Addr, s: String },
    WritePointer { addr: Addr, target: u16 },
    WriteCString { addr: Addr, s: String },
    WriteLabel { addr: Addr, s: String },
    WriteLabels { addr: Addr, names: Vec<String> },
    WriteU32 { addr: Addr, v: u32 },
    DeleteString { addr: Addr },
    DeletePointer { addr: Addr },
    DeleteLabels { addr: Addr },
    DeleteLabel { addr: Addr, idx: u8 },
}

#[derive(Clone, Debug, Hash, Serialize, Deserialize)]
pub struct Case {
    pub init: ArchiveContent,
    pub order_seed: u64,
    pub ops: Vec<Op>,
}

const SIZE_PALETTE: [usize; 16] = [0, 4, 4, 8, 8, 12, 16, 32, 1, 2, 3, 5, 6, 64, 256, 1024];

fn resolve_addr(a: Addr, size: usize, aligned_only: bool) -> usize {
    match a {
        Addr::Exact(x) => x as usize,
        Addr::Sel(sel) => {
            let slots = size / 4 + 3; // 0, 4, ..., up to one or two cells beyond the end
            let base = (((sel >> 2) as usize * slots) >> 14) * 4;
            if !aligned_only && sel & 3 == 3 {
                base + 1 + ((sel >> 4) as usize % 3)
            } else {
                base
            }
        }
    }
}
fn resolve_size(n: Size) -> usize {
    match n {
        Size::Pal(i) => SIZE_PALETTE[i as usize % 16],
        Size::Exact(x) => x as usize,
        Size::Huge(k) => usize::MAX - k as usize,
    }
}

#[derive(Clone, Debug, Default)]
pub struct Model {
    pub data: Vec<u8>,
    pub text: BTreeMap<usize, String>,
    pub ptrs: BTreeMap<usize, usize>,
    pub cstr: BTreeMap<usize, String>,
    pub labels: BTreeMap<usize, Vec<String>>,
}

impl Model {
    pub fn from_content(c: &ArchiveContent) -> Self {
        let mut m = Model { data: c.data.clone(), ..Default::default() };
        for (a, x) in &c.cells {
            match x {
                Cell::Pointer(t) => {
                    m.ptrs.insert(*a as usize, *t as usize);
                }
                Cell::Str(s) => {
                    m.text.insert(*a as usize, s.clone());
                }
                Cell::CStr(s) => {
                    m.cstr.insert(*a as usize, s.clone());
                }
            }
        }
        for (a, v) in &c.labels {
            m.labels.insert(*a as usize, v.clone());
        }
        m
    }
    fn size(&self) -> usize {
        self.data.len()
    }
    fn dangling(&self) -> bool {
        self.ptrs.values().any(|t| *t > self.size())
    }
    fn annotations_at_or_after(&self, a: usize) -> usize {
        self.text.range(a..).count() + self.ptrs.range(a..).count() + self.cstr.range(a..).count() + self.labels.range(a..).count() + self.ptrs.values().filter(|t| **t >= a).count()
    }
    /// statement: "Inserting n zero bytes at address a shifts the data and every string, pointer cell and pending
    /// c-string located at or after a by n, and every label and pointer target located after a (or at a, when
    /// inclusive shifting is requested) by n"
    fn insert(&mut self, a: usize, n: usize, ge: bool) {
        let tail = self.data.split_off(a);
        self.data.extend(std::iter::repeat(0).take(n));
        self.data.extend(tail);
        let mv_cell = |k: usize| if k >= a { k + n } else { k };
        let mv_lab = |k: usize| if k > a || (ge && k == a) { k + n } else { k };
        self.text = std::mem::take(&mut self.text).into_iter().map(|(k, v)| (mv_cell(k), v)).collect();
        self.cstr = std::mem::take(&mut self.cstr).into_iter().map(|(k, v)| (mv_cell(k), v)).collect();
        self.ptrs = std::mem::take(&mut self.ptrs).into_iter().map(|(k, t)| (mv_cell(k), mv_lab(t))).collect();
        self.labels = std::mem::take(&mut self.labels).into_iter().map(|(k, v)| (mv_lab(k), v)).collect();
    }
    /// statement: "Removing a range deletes exactly the bytes and annotations inside it and the pointers that
    /// point into it and shifts the rest back"
    fn remove(&mut self, a: usize, n: usize) {
        let end = a + n;
        self.data.drain(a..end);
        let inside = |k: usize| k >= a && k < end;
        let back = |k: usize| if k >= end { k - n } else { k };
        self.text = std::mem::take(&mut self.text).into_iter().filter(|(k, _)| !inside(*k)).map(|(k, v)| (back(k), v)).collect();
        self.cstr = std::mem::take(&mut self.cstr).into_iter().filter(|(k, _)| !inside(*k)).map(|(k, v)| (back(k), v)).collect();
        self.ptrs = std::mem::take(&mut self.ptrs).into_iter().filter(|(k, t)| !inside(*k) && !inside(*t)).map(|(k, t)| (back(k), back(t))).collect();
        self.labels = std::mem::take(&mut self.labels).into_iter().filter(|(k, _)| !inside(*k)).map(|(k, v)| (back(k), v)).collect();
    }
}

/// compares the full observable state; returns false (and records the failure) on a mismatch
fn compare(cx: &mut Cx, step: &str, a: &BinArchive, m: &Model) -> bool {
    let o = match observe(a) {
        Ok(o) => o,
        Err(e) => {
            cx.fail("observe", format!("{step}: {e}"));
            return false;
        }
    };
    if !cx.check(o.size == m.size(), "size", || format!("{step}: size {} but the model has {}", o.size, m.size())) {
        return false;
    }
    if !cx.check(o.bytes == m.data, "data-bytes", || {
        let i = o.bytes.iter().zip(m.data.iter()).position(|(x, y)| x != y).unwrap_or(0);
        format!("{step}: data differs from the model at byte {i}: {:02x?} vs {:02x?}", &o.bytes[i..(i + 8).min(o.bytes.len())], &m.data[i..(i + 8).min(m.data.len())])
    }) {
        return false;
    }
    if !cx.check(o.strings == m.text, "strings", || format!("{step}: strings {:?}, model {:?}", o.strings, m.text)) {
        return false;
    }
    if !cx.check(o.pointers == m.ptrs, "pointers", || format!("{step}: pointers {:?}, model {:?}", o.pointers, m.ptrs)) {
        return false;
    }
    if !cx.check(o.labels == m.labels, "labels", || format!("{step}: labels {:?}, model {:?}", o.labels, m.labels)) {
        return false;
    }
    let dests: BTreeSet<usize> = m.ptrs.values().copied().collect();
    if !cx.check(o.destinations == dests, "pointer-destinations", || format!("{step}: pointer_destinations {:?}, model {:?}", o.destinations, dests)) {
        return false;
    }
    // pending c-strings have no read accessor: observe them through the serialized image
    if !m.dangling() && (!m.cstr.is_empty() || step == "final") {
        let bytes = match a.serialize() {
            Ok(b) => b,
            Err(e) => {
                cx.fail("serializable-state", format!("{step}: serialize failed on a state the model considers consistent: {e}"));
                return false;
            }
        };
        let img = match refbin::parse(&bytes, matches!(step_endian(a), true)) {
            Ok(i) => i,
            Err(e) => {
                cx.fail("serializable-state", format!("{step}: reference reader cannot read the serialized state: {e}"));
                return false;
            }
        };
        if !cx.check(img.defects.is_empty(), "serializable-state", || format!("{step}: serialized state is not well-formed: {:?}", img.defects)) {
            return false;
        }
        let np = m.text.len() + m.ptrs.len() + m.cstr.len();
        if !cx.check(img.np == np, "c-strings", || format!("{step}: serialized state has {} pointer-table entries, model has {} annotated cells (text {:?}, ptrs {:?}, c-strings {:?}); table {:?}", img.np, np, m.text, m.ptrs, m.cstr, img.pointer_table)) {
            return false;
        }
        for (addr, s) in &m.cstr {
            let ok = match img.cells.get(&(*addr as u32)) {
                Some(RefCell::Pointer(v)) => {
                    let v = *v as usize;
                    v >= m.size() && v < img.data.len() && img.data[v..].iter().position(|b| *b == 0).map(|n| sjis_decode(&img.data[v..v + n]).as_deref() == Some(s.as_str())).unwrap_or(false)
                }
                _ => false,
            };
            if !cx.check(ok, "c-strings", || format!("{step}: pending c-string {s:?} expected at cell {addr}; serialized image has {:?} there (pointer table {:?})", img.cells.get(&(*addr as u32)), img.pointer_table)) {
                return false;
            }
        }
        for (addr, s) in &m.text {
            if !cx.check(matches!(img.cells.get(&(*addr as u32)), Some(RefCell::Str(g, _)) if g == s), "serialized-strings", || format!("{step}: string {s:?} at cell {addr} not found in the serialized image: {:?}", img.cells.get(&(*addr as u32)))) {
                return false;
            }
        }
        if step == "final" && m.cstr.is_empty() {
            // serialize -> parse of the final state (C01 oracle (a))
            match BinArchive::from_bytes(&bytes, endian_of(a)) {
                Ok(re) => {
                    let o2 = match observe(&re) {
                        Ok(o) => o,
                        Err(e) => {
                            cx.fail("final-round-trip", e);
                            return false;
                        }
                    };
                    let same = o2.size == m.size() && o2.strings == m.text && o2.pointers == m.ptrs && o2.labels == m.labels;
                    if !cx.check(same, "final-round-trip", || format!("final state does not survive serialize -> from_bytes: got size {} strings {:?} pointers {:?} labels {:?}; model size {} {:?} {:?} {:?}", o2.size, o2.strings, o2.pointers, o2.labels, m.size(), m.text, m.ptrs, m.labels)) {
                        return false;
                    }
                }
                Err(e) => {
                    cx.fail("final-round-trip", format!("from_bytes rejected the final state's serialization: {e}"));
                    return false;
                }
            }
        }
    }
    true
}

// BinArchive does not expose its endianness; the harness tracks it per run
thread_local! { static BE: std::cell::Cell<bool> = const { std::cell::Cell::new(false) }; }
fn step_endian(_a: &BinArchive) -> bool {
    BE.with(|b| b.get())
}
fn endian_of(_a: &BinArchive) -> mila::Endian {
    if BE.with(|b| b.get()) {
        mila::Endian::Big
    } else {
        mila::Endian::Little
    }
}

pub fn op_strategy() -> BoxedStrategy<Op> {
    let addr = any::<u16>().prop_map(Addr::Sel);
    let n = prop_oneof![8 => (0u8..16).prop_map(Size::Pal), 1 => (0u8..9).prop_map(Size::Huge)];
    let n_small = (0u8..16).prop_map(Size::Pal);
    prop_oneof![
        5 => (addr.clone(), n_small.clone(), any::<bool>()).prop_map(|(addr, n, ge)| Op::Allocate { addr, n, ge }),
        1 => n_small.clone().prop_map(|n| Op::AllocateAtEnd { n }),
        2 => (addr.clone(), n_small.clone(), any::<bool>()).prop_map(|(pos, n, ge)| Op::WriterAllocate { pos, n, ge }),
        5 => (addr.clone(), n, any::<bool>()).prop_map(|(addr, n, ge)| Op::Deallocate { addr, n, ge }),
        2 => addr.clone().prop_map(|addr| Op::Truncate { addr }),
        2 => (addr.clone(), archive_string()).prop_map(|(addr, s)| Op::WriteString { addr, s }),
        2 => (addr.clone(), any::<u16>()).prop_map(|(addr, target)| Op::WritePointer { addr, target }),
        2 => (addr.clone(), archive_string()).prop_map(|(addr, s)| Op::WriteCString { addr, s }),
        2 => (addr.clone(), archive_string()).prop_map(|(addr, s)| Op::WriteLabel { addr, s }),
        1 => (addr.clone(), proptest::collection::vec(archive_string(), 1..3)).prop_map(|(addr, names)| Op::WriteLabels { addr, names }),
        1 => (addr.clone(), any::<u32>()).prop_map(|(addr, v)| Op::WriteU32 { addr, v }),
        1 => addr.clone().prop_map(|addr| Op::DeleteString { addr }),
        1 => addr.clone().prop_map(|addr| Op::DeletePointer { addr }),
        1 => addr.clone().prop_map(|addr| Op::DeleteLabels { addr }),
        1 => (addr, 0u8..3).prop_map(|(addr, idx)| Op::DeleteLabel { addr, idx }),
    ]
    .boxed()
}

/// executes one op on both sides; false = failure recorded
fn step(cx: &mut Cx, i: usize, op: &Op, a: &mut BinArchive, m: &mut Model) -> bool {
    let size = m.size();
    let name = format!("step {i} {op:?}");
    // helper for the three relocation operations: acceptance is prescribed by the statement
    let mut verdict = |cx: &mut Cx, res: Result<(), String>, valid: Option<bool>, clause_ok: &str| -> Option<bool> {
        match (res, valid) {
            (Ok(()), Some(false)) => {
                cx.fail("invalid-request-rejected", format!("{name} (size {size}): a misaligned / out-of-range request was accepted"));
                None
            }
            (Err(e), Some(true)) => {
                cx.fail(clause_ok, format!("{name} (size {size}): a valid request was rejected: {e}"));
                None
            }
            (Ok(()), _) => Some(true),
            (Err(_), _) => Some(false),
        }
    };
    match op {
        Op::Allocate { addr, n, ge } => {
            let (ad, n) = (resolve_addr(*addr, size, false), resolve_size(*n).min(1 << 16));
            let valid = ad <= size && ad % 4 == 0 && n % 4 == 0;
            let res = match cx.call(|| a.allocate(ad, n, *ge).map_err(|e| e.to_string())) {
                Some(r) => r,
                None => return false,
            };
            match verdict(cx, res, Some(valid), "valid-insert-accepted") {
                Some(true) => {
                    if m.annotations_at_or_after(ad) > 0 && n > 0 {
                        cx.nontrivial();
                        cx.label("nontrivial-allocate");
                        cx.label_if(*ge, "ge=true");
                        cx.label_if(m.labels.contains_key(&ad), "label-exactly-at-address");
                        cx.label_if(m.ptrs.values().any(|t| *t == ad), "pointer-target-exactly-at-address");
                        cx.label_if(!m.cstr.is_empty(), "with-pending-c-string");
                    }
                    m.insert(ad, n, *ge);
                }
                Some(false) => cx.label("rejected-request"),
                None => return false,
            }
        }
        Op::AllocateAtEnd { n } => {
            let n = resolve_size(*n).min(1 << 16);
            if cx.call(|| a.allocate_at_end(n)).is_none() {
                return false;
            }
            m.data.extend(std::iter::repeat(0).take(n));
        }
        Op::WriterAllocate { pos, n, ge } => {
            let (p, n) = (resolve_addr(*pos, size, false), resolve_size(*n).min(1 << 16));
            let at_end = p == size;
            let valid = at_end || (p <= size && p % 4 == 0 && n % 4 == 0);
            // every other writer allocation is preceded, on the SAME writer, by a request the statement rejects (misaligned cursor inside the data,
            // or a cursor beyond the end): the writer must report the unchanged size afterwards and treat the real request as a fresh writer would
            let prior_reject = (p / 4 + n) % 2 == 0;
            let (res, notes) = match cx.call(|| {
                let mut w = BinArchiveWriter::new(a, p);
                let mut notes: Vec<String> = Vec::new();
                if prior_reject {
                    let bad = if size >= 2 && n % 8 >= 4 { 1 } else { size + 4 };
                    w.seek(bad);
                    if w.allocate(4, *ge).is_ok() {
                        notes.push(format!("allocate(4) with the cursor at {bad} of a {size}-byte archive was accepted"));
                    }
                    if w.size() != size || w.length() != size {
                        notes.push(format!("after a rejected allocate the writer reports size {} / length {} for a {size}-byte archive", w.size(), w.length()));
                    }
                    w.seek(p);
                }
                let r = w.allocate(n, *ge).map_err(|e| e.to_string());
                let expect = if r.is_ok() { size + n } else { size };
                if notes.is_empty() && (w.size() != expect || w.length() != expect || w.tell() != p) {
                    notes.push(format!("after allocate({n}) at cursor {p} of a {size}-byte archive ({}) the writer reports size {} / length {} / cursor {}", if r.is_ok() { "accepted" } else { "rejected" }, w.size(), w.length(), w.tell()));
                }
                (r, notes)
            }) {
                Some(r) => r,
                None => return false,
            };
            if let Some(n0) = notes.first() {
                cx.fail("writer-consistent-after-rejected-request", n0.clone());
                return false;
            }
            cx.label_if(prior_reject, "writer-allocate-after-rejected-request");
            match verdict(cx, res, Some(valid), "valid-insert-accepted") {
                Some(true) => {
                    cx.label("writer-allocate");
                    if at_end {
                        // appending at the end never relocates anything (labels and targets at the end stay)
                        m.data.extend(std::iter::repeat(0).take(n));
                    } else {
                        if m.annotations_at_or_after(p) > 0 && n > 0 {
                            cx.nontrivial();
                        }
                        m.insert(p, n, *ge);
                    }
                }
                Some(false) => cx.label("rejected-request"),
                None => return false,
            }
        }
        Op::Deallocate { addr, n, ge } => {
            let (ad, n) = (resolve_addr(*addr, size, false), resolve_size(*n));
            let in_range = ad < size && (ad as u128 + n as u128) <= size as u128;
            let valid = in_range && ad % 4 == 0 && n % 4 == 0;
            // an empty range is neither clearly in nor out of range: accept or reject, but change nothing
            let expect = if n == 0 { None } else { Some(valid) };
            let res = match cx.call(|| a.deallocate(ad, n, *ge).map_err(|e| e.to_string())) {
                Some(r) => r,
                None => return false,
            };
            cx.label_if(n > usize::MAX / 2, "remove-with-overflowing-range");
            match verdict(cx, res, expect, "valid-remove-accepted") {
                Some(true) => {
                    if n > 0 {
                        if m.annotations_at_or_after(ad) > 0 {
                            cx.nontrivial();
                            cx.label("nontrivial-deallocate");
                            cx.label_if(m.ptrs.values().any(|t| *t >= ad && *t < ad + n), "pointer-into-removed-range");
                            cx.label_if(m.labels.contains_key(&(ad + n)), "label-exactly-after-range");
                            cx.label_if(!m.cstr.is_empty(), "with-pending-c-string");
                        }
                        m.remove(ad, n);
                    }
                }
                Some(false) => cx.label("rejected-request"),
                None => return false,
            }
        }
        Op::Truncate { addr } => {
            let cut = resolve_addr(*addr, size, true);
            let before = m.clone();
            let res = match cx.call(|| a.truncate(cut).map_err(|e| e.to_string())) {
                Some(r) => r,
                None => return false,
            };
            if let Err(e) = res {
                cx.fail("truncate-ok", format!("{name}: truncate at a cell boundary failed: {e}"));
                return false;
            }
            if cut <= size {
                if before.annotations_at_or_after(cut) > 0 {
                    cx.nontrivial();
                    cx.label("nontrivial-truncate");
                    cx.label_if(before.labels.contains_key(&size), "label-at-old-end");
                    cx.label_if(before.labels.range(cut..).any(|(k, _)| k % 4 != 0), "unaligned-label-beyond-cut");
                    cx.label_if(before.cstr.range(cut..).next().is_some(), "c-string-beyond-cut");
                }
                m.data.truncate(cut);
                m.text = std::mem::take(&mut m.text).into_iter().filter(|(k, _)| *k < cut).collect();
                m.cstr = std::mem::take(&mut m.cstr).into_iter().filter(|(k, _)| *k < cut).collect();
                m.labels = std::mem::take(&mut m.labels).into_iter().filter(|(k, _)| *k < cut).collect();
                m.ptrs = std::mem::take(&mut m.ptrs).into_iter().filter(|(k, _)| *k < cut).collect();
                // don't-care zone: a surviving pointer cell whose target is at or beyond the cut may be kept unchanged or dropped
                let dangling: Vec<usize> = m.ptrs.iter().filter(|(_, t)| **t >= cut).map(|(k, _)| *k).collect();
                for k in dangling {
                    if k + 4 <= m.size() {
                        if let Ok(None) = a.read_pointer(k) {
                            m.ptrs.remove(&k);
                        }
                    }
                }
            }
        }
        // ---- history-building writes and deletes: acceptance is not asserted here (C04), the effect is
        Op::WriteString { addr, s } => {
            let ad = resolve_addr(*addr, size, true);
            if m.cstr.contains_key(&ad) {
                return true; // would put two annotation kinds on one cell: outside the quantifier
            }
            if m.ptrs.contains_key(&ad) {
                let _ = a.delete_pointer(ad);
                m.ptrs.remove(&ad);
            }
            match cx.call(|| a.write_string(ad, Some(s))) {
                Some(Ok(())) => {
                    m.text.insert(ad, s.clone());
                }
                Some(Err(_)) => {}
                None => return false,
            }
        }
        Op::WritePointer { addr, target } => {
            let ad = resolve_addr(*addr, size, true);
            if m.cstr.contains_key(&ad) {
                return true;
            }
            if m.text.contains_key(&ad) {
                let _ = a.delete_string(ad);
                m.text.remove(&ad);
            }
            let t = ((*target as usize) * (size + 1)) >> 16;
            match cx.call(|| a.write_pointer(ad, Some(t))) {
                Some(Ok(())) => {
                    m.ptrs.insert(ad, t);
                }
                Some(Err(_)) => {}
                None => return false,
            }
        }
        Op::WriteCString { addr, s } => {
            let ad = resolve_addr(*addr, size, true);
            if m.cstr.contains_key(&ad) || m.text.contains_key(&ad) || m.ptrs.contains_key(&ad) {
                return true;
            }
            match cx.call(|| a.write_c_string(ad, s.clone())) {
                Some(Ok(())) => {
                    m.cstr.insert(ad, s.clone());
                }
                Some(Err(_)) => {}
                None => return false,
            }
        }
        Op::WriteLabel { addr, s } => {
            let ad = resolve_addr(*addr, size, false);
            match cx.call(|| a.write_label(ad, s)) {
                Some(Ok(())) => m.labels.entry(ad).or_default().push(s.clone()),
                Some(Err(_)) => {}
                None => return false,
            }
        }
        Op::WriteLabels { addr, names } => {
            let ad = resolve_addr(*addr, size, false);
            if names.is_empty() {
                return true;
            }
            match cx.call(|| a.write_labels(ad, names.clone())) {
                Some(Ok(())) => {
                    m.labels.insert(ad, names.clone());
                }
                Some(Err(_)) => {}
                None => return false,
            }
        }
        Op::WriteU32 { addr, v } => {
            let ad = resolve_addr(*addr, size, false);
            match cx.call(|| a.write_u32(ad, *v)) {
                Some(Ok(())) => {
                    if ad + 4 <= m.data.len() {
                        let b = if BE.with(|b| b.get()) { v.to_be_bytes() } else { v.to_le_bytes() };
                        m.data[ad..ad + 4].copy_from_slice(&b);
                    }
                }
                Some(Err(_)) => {}
                None => return false,
            }
        }
        Op::DeleteString { addr } => {
            let ad = resolve_addr(*addr, size, true);
            match cx.call(|| a.delete_string(ad)) {
                Some(Ok(())) => {
                    m.text.remove(&ad);
                }
                Some(Err(_)) => {}
                None => return false,
            }
        }
        Op::DeletePointer { addr } => {
            let ad = resolve_addr(*addr, size, true);
            match cx.call(|| a.delete_pointer(ad)) {
                Some(Ok(())) => {
                    m.ptrs.remove(&ad);
                }
                Some(Err(_)) => {}
                None => return false,
            }
        }
        Op::DeleteLabels { addr } => {
            let ad = resolve_addr(*addr, size, false);
            match cx.call(|| a.delete_labels(ad)) {
                Some(Ok(())) => {
                    m.labels.remove(&ad);
                }
                Some(Err(_)) => {}
                None => return false,
            }
        }
        Op::DeleteLabel { addr, idx } => {
            let ad = resolve_addr(*addr, size, false);
            match cx.call(|| a.delete_label(ad, *idx as usize)) {
                Some(Ok(())) => {
                    if let Some(b) = m.labels.get_mut(&ad) {
                        if (*idx as usize) < b.len() {
                            b.remove(*idx as usize);
                        }
                        if b.is_empty() {
                            m.labels.remove(&ad);
                        }
                    }
                }
                Some(Err(_)) => {}
                None => return false,
            }
        }
    }
    compare(cx, &name, a, m)
}

fn palette_content(be: bool, ncells: usize, combo: usize, opts: usize, extra: usize) -> ArchiveContent {
    // per-cell option = annotation (6) x label-at-cell (2) when opts == 12; reduced palette of 6 otherwise
    let len = ncells * 4;
    let mut cells = BTreeMap::new();
    let mut labels: BTreeMap<u32, Vec<String>> = BTreeMap::new();
    let mut x = combo;
    for ci in 0..ncells {
        let o = x % opts;
        x /= opts;
        let addr = ci as u32 * 4;
        let (ann, lab) = if opts == 12 { (o % 6, o / 6 == 1) } else { ([0usize, 1, 3, 5, 1, 0][o], o >= 4) };
        match ann {
            1 => {
                cells.insert(addr, Cell::Str("a".into()));
            }
            2 => {
                cells.insert(addr, Cell::Pointer(0));
            }
            3 => {
                cells.insert(addr, Cell::Pointer(len as u32));
            }
            4 => {
                cells.insert(addr, Cell::Pointer(4.min(len as u32)));
            }
            5 => {
                cells.insert(addr, Cell::CStr("c".into()));
            }
            _ => {}
        }
        if lab {
            labels.insert(addr, vec![format!("L{ci}")]);
        }
    }
    if extra & 1 == 1 {
        labels.insert(len as u32, vec!["end".into()]);
    }
    if extra & 2 == 2 && len > 0 {
        labels.insert(1, vec!["odd".into()]);
    }
    ArchiveContent { big_endian: be, data: (0..len).map(|i| 0x10 + i as u8).collect(), cells, labels }
}

fn single_ops(size: usize) -> Vec<Op> {
    let mut v = Vec::new();
    for ad in 0..=(size + 4) as u64 {
        for n in [0u64, 1, 4, 8] {
            for ge in [false, true] {
                v.push(Op::Allocate { addr: Addr::Exact(ad), n: Size::Exact(n), ge });
                v.push(Op::Deallocate { addr: Addr::Exact(ad), n: Size::Exact(n), ge });
            }
        }
        if ad % 4 == 0 {
            v.push(Op::Truncate { addr: Addr::Exact(ad) });
            v.push(Op::Deallocate { addr: Addr::Exact(ad), n: Size::Huge(3), ge: false });
            v.push(Op::Deallocate { addr: Addr::Exact(ad), n: Size::Huge((ad % 8) as u8), ge: true });
            v.push(Op::WriterAllocate { pos: Addr::Exact(ad), n: Size::Exact(4), ge: false });
            v.push(Op::WriterAllocate { pos: Addr::Exact(ad), n: Size::Exact(6), ge: true });
        }
    }
    v
}

impl Prop for C03 {
    type Case = Case;
    const ID: &'static str = "C03";
    fn rule() -> String {
        "Stateful, model-based: an initial archive content (as in C01, c-strings included) and a list of operations {allocate, allocate_at_end, BinArchiveWriter::allocate, deallocate (incl. address+size overflow), truncate at a cell \
         boundary, write_string/pointer/c_string/label/labels/u32, delete_string/pointer/labels/label} with addresses drawn around the current cell boundaries (0..=size+8, aligned and unaligned), sizes from \
         {0,1,2,3,4,5,6,8,12,16,32,64,256,1024, usize::MAX-k} and both values of the inclusive-shift flag are applied to the real archive and to a BTreeMap model implementing the statement literally. Acceptance of \
         every insert/remove request is prescribed (misaligned, beyond the end, overflowing => Err), and after EVERY step the full observable state is compared: size, all bytes, read_string/read_pointer on every cell, all_labels per \
         address, pointer_destinations; pending c-strings are observed through the serialized image read by the reference reader; the final state must survive serialize -> from_bytes. Don't-care zones: dangling pointer targets after truncate, \
         deallocate of an empty range. Bounded-exhaustive tier: all archives of 0..=2 cells (12 annotation/label choices per cell, label at the end, unaligned label) and of 3 cells (6 choices per cell) x every single allocate/deallocate with every \
         address 0..=size+4, n in {0,1,4,8}, both flags, every truncate, overflowing removes, writer allocations (thorough: 3 cells with 12 choices, 4 cells with 6, and 2-op sequences). Every other writer allocation is preceded on the same writer by a request the statement rejects (misaligned cursor, cursor beyond the end): size()/length()/tell() must be unchanged and the real request decided as on a fresh writer. Non-trivial: the history contains a successful allocate/deallocate/truncate \
         on an archive holding >= 1 annotation at or after the address. Distinct = distinct case value."
            .into()
    }
    fn assumptions() -> Vec<String> {
        vec![
            "the BTreeMap model in harness/src/props/c03.rs is the statement, transcribed clause by clause".into(),
            "insertion sizes are bounded by 64 KiB (interpretation 7); annotation cells are aligned and carry one annotation kind (interpretation 2)".into(),
            "acceptance of annotation writes/deletes is not asserted here (C04 interpretation 10), only their effect".into(),
        ]
    }
    fn both_builds() -> bool {
        true
    }
    fn random_cases(tier: Tier) -> u64 {
        tier.pick(60_000, 3_000_000)
    }
    fn strategy(tier: Tier) -> BoxedStrategy<Case> {
        let (max_len, max_ops) = tier.pick((64usize, 12usize), (1024, 40));
        let small = content_strategy(48, 8, 6, true);
        let big = content_strategy(max_len, 40, 20, true);
        let (l_len, l_cells, l_labels) = tier.pick((24_000, 1_200, 500), (100_000, 10_000, 2_000));
        let large = content_strategy(l_len, l_cells, l_labels, true);
        (prop_oneof![60 * tier.pick(1u32, 16) => small, 20 * tier.pick(1u32, 16) => big, 1 => large], any::<u64>(), proptest::collection::vec(op_strategy(), 1..=max_ops))
            .prop_map(|(init, order_seed, ops)| Case { init, order_seed, ops })
            .boxed()
    }
    fn enumerate(tier: Tier, shard: u64, nshards: u64, f: &mut dyn FnMut(Case) -> bool) {
        let mut idx = 0u64;
        let plans: Vec<(usize, usize)> = match tier {
            Tier::Quick => vec![(0, 12), (1, 12), (2, 12), (3, 6)],
            Tier::Thorough => vec![(0, 12), (1, 12), (2, 12), (3, 12), (4, 6)],
        };
        for (ncells, opts) in plans {
            let ops = single_ops(ncells * 4);
            for combo in 0..opts.pow(ncells as u32) {
                for extra in 0..4 {
                    if ncells == 0 && extra >= 2 {
                        continue;
                    }
                    let be = (combo + extra) % 2 == 1;
                    let init = palette_content(be, ncells, combo, opts, extra);
                    for op in &ops {
                        let mine = idx % nshards == shard;
                        idx += 1;
                        if mine && !f(Case { init: init.clone(), order_seed: 0, ops: vec![op.clone()] }) {
                            return;
                        }
                    }
                }
            }
        }
        if tier == Tier::Thorough {
            // all 2-op sequences (second op from a reduced list) on archives of <= 2 cells with the reduced palette
            for ncells in 1..=2usize {
                let first = single_ops(ncells * 4);
                for combo in 0..6usize.pow(ncells as u32) {
                    for extra in [0usize, 1, 3] {
                        let init = palette_content(combo % 2 == 0, ncells, combo, 6, extra);
                        for op1 in &first {
                            for op2 in single_ops(8).iter().step_by(7) {
                                let mine = idx % nshards == shard;
                                idx += 1;
                                if mine && !f(Case { init: init.clone(), order_seed: 0, ops: vec![op1.clone(), op2.clone()] }) {
                                    return;
                                }
                            }
                        }
                    }
                }
            }
        }
    }
    fn exhaustive_note(tier: Tier) -> Option<String> {
        Some(match tier {
            Tier::Quick => "all archives of 0..=2 cells (12 choices per cell) and 3 cells (6 choices per cell), x {no label at end, label at end} x {no unaligned label, label at 1} x every single allocate/deallocate at every address 0..=size+4 with n in {0,1,4,8} and both flags, every truncate at a cell boundary, overflowing deallocate, writer allocate".into(),
            Tier::Thorough => "as quick with 3 cells x 12 choices and 4 cells x 6 choices, plus all 2-operation sequences (second op from every 7th single op) on archives of 1..=2 cells".into(),
        })
    }
    fn shrink(c: &Case) -> Vec<Case> {
        let mut v = Vec::new();
        for i in 0..c.ops.len() {
            if c.ops.len() > 1 {
                let mut ops = c.ops.clone();
                ops.remove(i);
                v.push(Case { init: c.init.clone(), order_seed: c.order_seed, ops });
            }
        }
        for k in c.init.cells.keys() {
            let mut init = c.init.clone();
            init.cells.remove(k);
            v.push(Case { init, order_seed: c.order_seed, ops: c.ops.clone() });
        }
        for k in c.init.labels.keys() {
            let mut init = c.init.clone();
            init.labels.remove(k);
            v.push(Case { init, order_seed: c.order_seed, ops: c.ops.clone() });
        }
        v
    }

    fn run(case: &Case, cx: &mut Cx) {
        let c = &case.init;
        BE.with(|b| b.set(c.big_endian));
        let mut a = match cx.call(|| build(c, case.order_seed, false)) {
            Some(Ok(a)) => a,
            Some(Err(e)) => {
                cx.fail("build", format!("building the initial content failed: {}", e.0));
                return;
            }
            None => return,
        };
        let mut m = Model::from_content(c);
        if !compare(cx, "initial", &a, &m) {
            return;
        }
        for (i, op) in case.ops.iter().enumerate() {
            if !step(cx, i, op, &mut a, &mut m) {
                return;
            }
            match op {
                Op::Allocate { .. } => cx.label("op:allocate"),
                Op::AllocateAtEnd { .. } => cx.label("op:allocate_at_end"),
                Op::WriterAllocate { .. } => cx.label("op:writer-allocate"),
                Op::Deallocate { .. } => cx.label("op:deallocate"),
                Op::Truncate { .. } => cx.label("op:truncate"),
                _ => cx.label("op:write/delete"),
            }
        }
        cx.label_if(m.dangling(), "ends-with-dangling-pointer(no final round trip)");
        cx.label_if(c.len() > 4096, "initial-data>4KiB");
        if !compare(cx, "final", &a, &m) {
            return;
        }
        cx.mix(m.size() as u64);
        cx.mix_bytes(&m.data);
    }
}
