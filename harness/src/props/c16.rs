//! C16 — 3DS arc extraction returns exactly the packed files.
use crate::engine::prop::{Cx, Mix64, Prop, Tier};
use crate::gen::archive::{ArchiveContent, Cell};
use crate::gen::strings::sjis_string;
use crate::refimpl::refbin;
use mila::arc;
use proptest::prelude::*;
use serde::{Deserialize, Serialize};
use std::collections::BTreeMap;

pub struct C16;

#[derive(Clone, Debug, Hash, Serialize, Deserialize)]
pub enum Negative {
    None,
    NoCountLabel,
    NoInfoLabel,
    /// the record at this (index-mapped) position has no name pointer
    MissingName(u16),
    /// the record's range is pushed past the end of the data region
    RangePastEnd(u16, u8),
    /// offset field near 2^32 (offset + header overflows u32)
    HugeOffset(u16),
}

#[derive(Clone, Debug, Hash, Serialize, Deserialize)]
pub struct Case {
    /// distinct names with contents (length, seed)
    pub files: Vec<(String, u32, u64)>,
    pub header: bool,
    /// section order, gaps, record order, body order
    pub layout_seed: u64,
    /// use a non-canonical (permuted tables, moved strings) image
    pub alt_image: bool,
    pub negative: Negative,
    /// bit 0: every record also carries its file name as a label (game-style); bit 1: no word alignment before the tables;
    /// bit 2: the second record does not get a body of its own but a sub-range of the first record's body (overlapping ranges)
    #[serde(default)]
    pub extras: u8,
}

pub struct Built {
    pub content: ArchiveContent,
    pub files: Vec<(String, Vec<u8>)>,
    pub empty_body_at_end: bool,
    pub record_order_differs: bool,
}

/// Lays the files out as an arc data region: [0x60 zero header] then, in a seeded order, the Count cell,
/// the Info table (records in a seeded order) and the bodies (seeded order, seeded gaps).
pub fn build(case: &Case) -> Built {
    let mut r = Mix64(case.layout_seed ^ 0xA2C);
    let mut files: Vec<(String, Vec<u8>)> = Vec::new();
    for (n, len, seed) in &case.files {
        if !files.iter().any(|(m, _)| m == n) {
            files.push((n.clone(), Mix64(*seed).bytes(*len as usize)));
        }
    }
    let n = files.len();
    let pad = if case.header { 0x60usize } else { 0 };
    let mut data: Vec<u8> = vec![0; pad];
    // sections: 0 = count, 1 = info, 2.. = bodies
    let mut sections: Vec<usize> = (0..n + 2).collect();
    for i in (1..sections.len()).rev() {
        let j = r.below(i as u64 + 1) as usize;
        sections.swap(i, j);
    }
    if !case.header {
        // without the zero header the first data word must be non-zero: that is how the format is detected.
        // Put the Count cell first when there are files (count >= 1) - or, for one layout seed in three, the Info table, whose first
        // word is the name cell of the first record (a string pointer: in the file it holds a non-zero offset) -, otherwise a
        // non-zero filler word.
        if n > 0 {
            let first = if case.layout_seed % 3 == 2 && !matches!(case.negative, Negative::MissingName(_)) { 1 } else { 0 };
            let p = sections.iter().position(|s| *s == first).unwrap();
            sections.swap(0, p);
        } else {
            data.extend_from_slice(&[0xFF, 0xFF, 0xFF, 0xFF]);
        }
    }
    let mut record_order: Vec<usize> = (0..n).collect();
    for i in (1..n).rev() {
        let j = r.below(i as u64 + 1) as usize;
        record_order.swap(i, j);
    }
    let mut count_addr = 0usize;
    let mut info_addr = 0usize;
    let mut body_addr = vec![0usize; n];
    let mut last_body: Option<usize> = None;
    for s in &sections {
        // gap (word aligned so that the tables stay aligned)
        if r.below(3) == 0 {
            let g = 4 * r.below(4) as usize;
            data.extend(std::iter::repeat(0xEE).take(g));
        }
        match *s {
            0 => {
                while data.len() % 4 != 0 && case.extras & 2 == 0 {
                    data.push(0xEE);
                }
                count_addr = data.len();
                data.extend_from_slice(&(n as u32).to_le_bytes());
            }
            1 => {
                while data.len() % 4 != 0 && case.extras & 2 == 0 {
                    data.push(0xEE);
                }
                info_addr = data.len();
                data.extend(std::iter::repeat(0).take(16 * n));
            }
            b => {
                let i = b - 2;
                if case.extras & 4 == 4 && i == 1 && n >= 2 {
                    continue; // placed below, inside the body of file 0
                }
                body_addr[i] = data.len();
                data.extend_from_slice(&files[i].1);
                last_body = Some(i);
            }
        }
    }
    if case.extras & 4 == 4 && n >= 2 {
        // file 1 := a sub-range of file 0's body (two records, overlapping ranges)
        let b0 = files[0].1.clone();
        let start = b0.len() / 3;
        files[1].1 = b0[start..].to_vec();
        body_addr[1] = body_addr[0] + start;
    }
    let mut cells = BTreeMap::new();
    let mut labels: BTreeMap<u32, Vec<String>> = BTreeMap::new();
    for (slot, fi) in record_order.iter().enumerate() {
        let rec = info_addr + 16 * slot;
        let mut size = files[*fi].1.len() as u32;
        let mut offset = (body_addr[*fi] - pad) as u32;
        let mut named = true;
        match &case.negative {
            Negative::MissingName(sel) if n > 0 && ((*sel as usize * n) >> 16) == slot => named = false,
            Negative::RangePastEnd(sel, extra) if n > 0 && ((*sel as usize * n) >> 16) == slot => {
                // size such that offset + size exceeds the data region by 1 + extra
                size = (data.len() - body_addr[*fi]) as u32 + 1 + *extra as u32;
            }
            Negative::HugeOffset(sel) if n > 0 && ((*sel as usize * n) >> 16) == slot => {
                offset = 0xFFFF_FFFF - (slot as u32 % 0x60);
                // an EMPTY range far outside the data is not clearly "a range that leaves the data region":
                // keep the negative variant to non-empty ranges (corrected false alarm, DESIGN 8)
                size = size.max(1);
            }
            _ => {}
        }
        if named {
            cells.insert(rec as u32, Cell::Str(files[*fi].0.clone()));
        }
        if case.extras & 1 == 1 && !files[*fi].0.is_empty() && files[*fi].0 != "Count" && files[*fi].0 != "Info" {
            labels.entry(rec as u32).or_default().push(files[*fi].0.clone());
        }
        data[rec + 4..rec + 8].copy_from_slice(&(r.next() as u32).to_le_bytes());
        data[rec + 8..rec + 12].copy_from_slice(&size.to_le_bytes());
        data[rec + 12..rec + 16].copy_from_slice(&offset.to_le_bytes());
    }
    if !matches!(case.negative, Negative::NoCountLabel) {
        labels.entry(count_addr as u32).or_default().push("Count".into());
    }
    if !matches!(case.negative, Negative::NoInfoLabel) {
        labels.entry(info_addr as u32).or_default().push("Info".into());
    }
    let empty_body_at_end = last_body.map(|i| files[i].1.is_empty() && body_addr[i] == data.len()).unwrap_or(false);
    let record_order_differs = record_order.iter().enumerate().any(|(a, b)| a != *b);
    Built { content: ArchiveContent { big_endian: false, data, cells, labels }, files, empty_body_at_end, record_order_differs }
}

impl Prop for C16 {
    type Case = Case;
    const ID: &'static str = "C16";
    fn rule() -> String {
        "Sets of 0..=8 distinct Shift-JIS-lossless names with contents (empty, unaligned lengths, <= 600 bytes) are laid out as an arc data region by the harness: with or without the 0x60-byte zero header (without it the first data word is non-zero), \
         the Count cell, the Info table and the bodies in a generated order with gaps, records in a generated order, bodies anywhere (incl. an empty body at the very end of the data), offsets relative to the end of the header when present; optionally every record also carries its file name as a label (as the games' files do; names such as Data included) the tables are placed without word alignment, and two records may name overlapping ranges (one body, or a sub-range of it); the bin-archive image is written by \
         the independent reference writer (canonical or permuted tables / moved strings). Oracle: arc::from_bytes returns exactly one entry per record, keyed by name, with exactly the recorded bytes. Negative variants: Count label removed => Err, Info label removed => Err, \
         one record without a name pointer => Err, one record whose range leaves the data region (by 1..=256 bytes, or an offset field near 2^32) => Err; never a panic, in both builds. \
         1 case in 100 packs 260..=1 200 files; 1 body in 800 is 3 000..70 000 bytes; 1 name in ~120 is up to 36 KiB long; without the header one layout in three starts the data region with the Info table (first word = name cell of the first record) instead of the Count cell. One alternative image in four is laid out so that the text offset of the first label name EQUALS the value of a name pointer (cells' strings first, NUL padding, then the label names). Non-trivial: >= 2 files and (no header, or record order != body order, or an empty file). Distinct = distinct case value."
            .into()
    }
    fn assumptions() -> Vec<String> {
        vec!["the layout generator in harness/src/props/c16.rs is the conforming-layout definition of the statement; refbin writes the image".into()]
    }
    fn both_builds() -> bool {
        true
    }
    fn random_cases(tier: Tier) -> u64 {
        tier.pick(60_000, 5_000_000)
    }
    fn strategy(_tier: Tier) -> BoxedStrategy<Case> {
        let name = prop_oneof![60 => "[a-zA-Z0-9_.]{1,12}", 40 => sjis_string(8), 1 => crate::gen::strings::long_sjis_string(), 20 => proptest::sample::select(vec!["Count".to_string(), "Info".to_string(), "".to_string(), "Data".to_string(), "Header".to_string()])];
        let len = prop_oneof![200 => Just(0u32), 300 => 1u32..=9, 300 => 0u32..=600, 1 => 3_000u32..=70_000];
        let negative = prop_oneof![
            8 => Just(Negative::None),
            1 => Just(Negative::NoCountLabel),
            1 => Just(Negative::NoInfoLabel),
            1 => any::<u16>().prop_map(Negative::MissingName),
            2 => (any::<u16>(), any::<u8>()).prop_map(|(a, b)| Negative::RangePastEnd(a, b)),
            1 => any::<u16>().prop_map(Negative::HugeOffset),
        ];
        let file = (name, len, any::<u64>()).boxed();
        // 1 case in 100 packs hundreds of files (record table, name strings and label table far beyond 8-bit counts)
        let files = prop_oneof![99 => proptest::collection::vec(file.clone(), 0..=8), 1 => proptest::collection::vec(file, 260..=1200)];
        (files, any::<bool>(), any::<u64>(), any::<bool>(), negative, prop_oneof![2 => Just(0u8), 1 => Just(1u8), 1 => 0u8..8])
            .prop_map(|(files, header, layout_seed, alt_image, negative, extras)| Case { files, header, layout_seed, alt_image, negative, extras })
            .boxed()
    }
    fn enumerate(_tier: Tier, shard: u64, nshards: u64, f: &mut dyn FnMut(Case) -> bool) {
        // small archives in every section order (layout seeds 0..40), with/without header, with an empty file
        let mut idx = 0u64;
        for header in [true, false] {
            for files in [vec![], vec![("a".to_string(), 5u32, 1u64)], vec![("a".to_string(), 3, 1), ("empty".to_string(), 0, 2)], vec![("x".to_string(), 0, 1), ("\u{FF71}".to_string(), 33, 2), ("z".to_string(), 8, 3)], vec![("Data".to_string(), 7, 1), ("b".to_string(), 2, 2)]] {
                for seed in 0..40u64 {
                    for alt in [false, true] {
                        let mine = idx % nshards == shard;
                        idx += 1;
                        if mine && !f(Case { files: files.clone(), header, layout_seed: seed, alt_image: alt, negative: Negative::None, extras: (seed % 8) as u8 }) {
                            return;
                        }
                    }
                    for negative in [Negative::NoCountLabel, Negative::NoInfoLabel, Negative::MissingName(0), Negative::RangePastEnd(0, 0), Negative::RangePastEnd(65535, 3), Negative::HugeOffset(0)] {
                        let mine = idx % nshards == shard;
                        idx += 1;
                        if mine && seed % 4 == 0 && !f(Case { files: files.clone(), header, layout_seed: seed, alt_image: false, negative, extras: 0 }) {
                            return;
                        }
                    }
                }
            }
        }
    }
    fn exhaustive_note(_tier: Tier) -> Option<String> {
        Some("4 small file sets (0..=3 files, with an empty file) x 40 section/record/body orders x {header, no header} x {canonical, permuted image} and the six negative variants".into())
    }

    fn run(case: &Case, cx: &mut Cx) {
        let b = build(case);
        let image = if case.alt_image { refbin::write_layout_mode(&b.content, case.layout_seed, case.layout_seed % 4 == 2) } else { refbin::write_canonical(&b.content, None) };
        let res = match cx.call(|| arc::from_bytes(&image)) {
            Some(r) => r,
            None => return,
        };
        let n = b.files.len();
        // which negative variant actually applies (record-level ones need a record)
        let effective = match &case.negative {
            Negative::MissingName(_) | Negative::RangePastEnd(..) | Negative::HugeOffset(_) if n == 0 => &Negative::None,
            x => x,
        };
        match effective {
            Negative::None => match res {
                Ok(map) => {
                    if !cx.check(map.len() == n, "one-entry-per-record", || format!("{} entries extracted, {} records packed", map.len(), n)) {
                        return;
                    }
                    for (name, content) in &b.files {
                        let got = map.get(name);
                        if !cx.check(got == Some(content), "exact-bytes", || format!("entry {name:?}: extracted {:?} bytes, packed {} bytes (first difference at {:?})", got.map(|g| g.len()), content.len(), got.and_then(|g| g.iter().zip(content.iter()).position(|(a, b)| a != b)))) {
                            return;
                        }
                    }
                }
                Err(e) => {
                    cx.fail("conforming-image-accepted", format!("from_bytes rejected a conforming arc image ({} files, header: {}): {e}", n, case.header));
                    return;
                }
            },
            neg => {
                if !cx.check(res.is_err(), "malformed-image-rejected", || format!("{neg:?}: extraction succeeded on an image that must be reported as an error")) {
                    return;
                }
                cx.label(match neg {
                    Negative::NoCountLabel => "negative:no-count",
                    Negative::NoInfoLabel => "negative:no-info",
                    Negative::MissingName(_) => "negative:missing-name",
                    Negative::RangePastEnd(..) => "negative:range-past-end",
                    _ => "negative:huge-offset",
                });
            }
        }
        let has_empty = b.files.iter().any(|(_, c)| c.is_empty());
        if n >= 2 && (!case.header || b.record_order_differs || has_empty) {
            cx.nontrivial();
        }
        cx.label_if(case.header, "with-header");
        cx.label_if(case.files.len() > 255, ">255-files");
        cx.label_if(case.files.iter().any(|f| f.1 > 65_535), "file>64KiB");
        cx.label_if(!case.header, "without-header");
        cx.label_if(!case.header && !case.files.is_empty() && case.layout_seed % 3 == 2 && !matches!(case.negative, Negative::MissingName(_)), "without-header-info-table-first");
        cx.label_if(b.empty_body_at_end, "empty-body-at-end-of-data");
        cx.label_if(has_empty, "empty-file");
        cx.label_if(b.record_order_differs, "record-order-differs");
        cx.label_if(case.alt_image, "permuted-image");
        cx.label_if(case.extras & 1 == 1, "records-labelled-with-file-names");
        cx.label_if(case.extras & 4 == 4 && n >= 2, "overlapping-record-ranges");
        cx.label_if(case.extras & 2 == 2 && b.content.cells.keys().any(|a| a % 4 != 0), "unaligned-record-table");
        cx.label_if(!case.header && b.content.data.len() < 0x60, "no-header-and-data<0x60");
    }
}
