//! C10 — compressed size is bounded and repetition is actually exploited.
use super::lzcommon::{enumerate_small, LzInput};
use crate::engine::prop::{Cx, Prop, Tier};
use crate::gen::bytes::{lz_input, pattern, BytesSpec};
use mila::{LZ10CompressionFormat, LZ13CompressionFormat};
use proptest::prelude::*;
use serde::{Deserialize, Serialize};

pub struct C10;

#[derive(Clone, Debug, Hash, Serialize, Deserialize)]
pub enum Case {
    /// expansion bound on an arbitrary input
    Expansion(LzInput),
    /// effectiveness bound: `n` bytes repeating with period `p`; alphabet 0 = random bytes, 1 = {0,1}, 2 = constant,
    /// 3 = random bytes with an inner repeat (a record of ~300 bytes occurring twice inside one period)
    Periodic { p: u32, n: u32, alphabet: u8, seed: u64 },
}

fn lens_for(p: u32) -> Vec<u32> {
    vec![p + 1, p + 3, p + 18, p + 19, 2 * p, 3 * p + 5, p + 4096, p + 4097, p + 10_000]
}

fn quick_periods() -> Vec<u32> {
    let mut v: Vec<u32> = (1..=20).collect();
    v.extend([31, 32, 33, 63, 64, 100, 255, 256, 257, 511, 512, 1000, 1023, 1024, 1025, 2047, 2048, 2049, 2050, 3000, 3500, 4000]);
    v.extend(4088..=4096);
    v
}

fn periodic_bytes(p: u32, n: u32, alphabet: u8, seed: u64) -> Vec<u8> {
    let mut pat = pattern(p as usize, seed, if alphabet == 3 { 0 } else { alphabet });
    if alphabet == 3 && p >= 700 {
        // copy a record of 273..=330 bytes from one place of the period to a later place
        let rec = 273 + (seed % 58) as usize;
        let from = (seed / 64) as usize % (p as usize / 2 - rec.min(p as usize / 2 - 1)).max(1);
        let to = p as usize - rec - (seed / 4096) as usize % 8;
        let chunk: Vec<u8> = pat[from..from + rec].to_vec();
        pat[to..to + rec].copy_from_slice(&chunk);
    }
    (0..n as usize).map(|i| pat[i % p as usize]).collect()
}

/// the statement's bound, verbatim: header + (p+2) literals + r references of R bytes + one flag byte per 8 tokens
fn effectiveness_bound(h: u64, l: u64, r_bytes: u64, p: u64, n: u64) -> u64 {
    let r = (n - p + l - 1) / l + 1;
    h + (p + 2) + r * r_bytes + (p + 2 + r + 7) / 8
}

impl Prop for C10 {
    type Case = Case;
    const ID: &'static str = "C10";

    fn rule() -> String {
        "Expansion clause: for every input x (all strings over {0,1} up to length 10/14, incompressible data of every length 0..=64, repository files, random structured inputs) \
         len(LZ10(x)) <= 4 + n + ceil(n/8) and len(LZ13(x)) <= 8 + n + ceil(n/8). Effectiveness clause: for n bytes repeating with period p (n > p, p <= 4096) \
         len(out) <= H + (p+2) + r*R + ceil((p+2+r)/8), r = ceil((n-p)/L)+1, (H,L,R) = (4,18,2) for LZ10 and (8,4096,4) for LZ13 - the statement's formula verbatim. \
         Periods: ~55 values in quick (1..=20, around 256/512/1024/2048, 4088..=4096) and all of 1..=4096 in thorough, x lengths {p+1,p+3,p+18,p+19,2p,3p+5,p+4096,p+4097,p+10000} \
         x patterns {random bytes, bytes over {0,1}, constant}; plus random (p,n,pattern); plus periods 1..=4 at every length up to 300; plus periods 1100/2198/3000/4096 whose pattern contains an inner repeat of 273..330 bytes on inputs of 60 000 and 600 000 bytes (thorough: up to 1 500 000). Non-trivial: periodic case with n >= p+3 and (p >= 2049 or n-p >= L), i.e. the case needs \
         the far half of the window or a maximal-length match. Distinct = distinct case value."
            .into()
    }
    fn assumptions() -> Vec<String> {
        vec!["the bound is the one stated in the property; it was measured tight (max ratio 0.999) and never exceeded on the pinned tree".into()]
    }
    fn random_cases(tier: Tier) -> u64 {
        tier.pick(3_000, 150_000)
    }
    fn strategy(tier: Tier) -> BoxedStrategy<Case> {
        let max = tier.pick(12_000u32, 60_000);
        prop_oneof![
            2 => lz_input(max).prop_map(|s| Case::Expansion(LzInput::Spec(s))),
            1 => (0u32..=64, any::<u64>()).prop_map(|(len, seed)| Case::Expansion(LzInput::Spec(BytesSpec::Random { len, seed }))),
            5 => (1u32..=4096, 0usize..9, 0u8..3, any::<u64>(), 0u32..40).prop_map(|(p, li, alphabet, seed, jitter)| {
                let n = lens_for(p)[li] + if li >= 2 { jitter } else { 0 };
                Case::Periodic { p, n, alphabet, seed }
            }),
            2 => (prop_oneof![1u32..=24, 2040u32..=2056, 4080u32..=4096], 1u32..=9000, 0u8..3, any::<u64>())
                .prop_map(|(p, extra, alphabet, seed)| Case::Periodic { p, n: p + extra, alphabet, seed }),
        ]
        .boxed()
    }
    fn enumerate(tier: Tier, shard: u64, nshards: u64, f: &mut dyn FnMut(Case) -> bool) {
        let periods: Vec<u32> = match tier {
            Tier::Quick => quick_periods(),
            Tier::Thorough => (1..=4096).collect(),
        };
        let mut idx = 0u64;
        for p in periods {
            for n in lens_for(p) {
                for alphabet in 0u8..3 {
                    if idx % nshards == shard {
                        if !f(Case::Periodic { p, n, alphabet, seed: 0xC10 + p as u64 * 31 + alphabet as u64 }) {
                            return;
                        }
                    }
                    idx += 1;
                }
            }
        }
        // tiny periods at every length up to 300 (the start of the window, where references overlap their own output)
        for p in 1u32..=4 {
            for n in (p + 1)..=300 {
                for alphabet in [0u8, 2] {
                    if idx % nshards == shard {
                        if !f(Case::Periodic { p, n, alphabet, seed: 0x5151 + p as u64 }) {
                            return;
                        }
                    }
                    idx += 1;
                }
            }
        }
        // periods with an inner repeat, on long inputs (a match finder that settles for a partial match loses ground slowly)
        for (k, p) in [1100u32, 2198, 3000, 4096].iter().enumerate() {
            for n in tier.pick(vec![60_000u32, 600_000], vec![60_000, 200_000, 600_000, 1_500_000]) {
                for s in 0..tier.pick(2u64, 6) {
                    if idx % nshards == shard {
                        if !f(Case::Periodic { p: *p, n, alphabet: 3, seed: 0x1A2B_3C00 + 7919 * s + k as u64 * 131 }) {
                            return;
                        }
                    }
                    idx += 1;
                }
            }
        }
        for len in 0u32..=64 {
            if idx % nshards == shard && !f(Case::Expansion(LzInput::Spec(BytesSpec::Random { len, seed: 0xE0 + len as u64 }))) {
                return;
            }
            idx += 1;
        }
        let mut stop = false;
        enumerate_small(tier.pick(10, 14), tier.pick(6, 8), shard, nshards, &mut |c| {
            if !f(Case::Expansion(c)) {
                stop = true;
            }
            !stop
        });
    }
    fn exhaustive_note(tier: Tier) -> Option<String> {
        Some(match tier {
            Tier::Quick => "55 periods x 9 lengths x 3 patterns; incompressible data of every length 0..=64; all strings over {0,1} up to length 10".into(),
            Tier::Thorough => "every period 1..=4096 x 9 lengths x 3 patterns; incompressible data of every length 0..=64; all strings over {0,1} up to length 14".into(),
        })
    }

    fn run(case: &Case, cx: &mut Cx) {
        let (input, periodic) = match case {
            Case::Expansion(i) => (i.bytes(), None),
            Case::Periodic { p, n, alphabet, seed } => (periodic_bytes(*p, *n, *alphabet, *seed), Some((*p as u64, *n as u64))),
        };
        let n = input.len() as u64;
        for (name, h, l, r_bytes) in [("LZ10", 4u64, 18u64, 2u64), ("LZ13", 8, 4096, 4)] {
            let res = cx.call(|| {
                if name == "LZ10" {
                    LZ10CompressionFormat.compress(&input)
                } else {
                    LZ13CompressionFormat.compress(&input)
                }
            });
            let out = match res {
                Some(Ok(o)) => o,
                Some(Err(e)) => {
                    if !input.is_empty() {
                        cx.fail("compress-ok", format!("{name} compress returned Err({e}) for {n} bytes"));
                    }
                    continue;
                }
                None => return,
            };
            let bound = h + n + (n + 7) / 8;
            if !cx.check(out.len() as u64 <= bound, if name == "LZ10" { "expansion-bound-LZ10" } else { "expansion-bound-LZ13" }, || {
                format!("{name}: output {} bytes > header + n + ceil(n/8) = {bound} for n = {n}", out.len())
            }) {
                return;
            }
            if let Some((p, n)) = periodic {
                let eb = effectiveness_bound(h, l, r_bytes, p, n);
                if !cx.check(out.len() as u64 <= eb, if name == "LZ10" { "effectiveness-bound-LZ10" } else { "effectiveness-bound-LZ13" }, || {
                    format!("{name}: period {p}, n {n}: output {} bytes > bound {eb} (header + (p+2) literals + r refs + flags)", out.len())
                }) {
                    return;
                }
                if out.len() as u64 * 100 >= eb * 98 {
                    cx.label(if name == "LZ10" { "within-2%-of-bound-LZ10" } else { "within-2%-of-bound-LZ13" });
                }
            }
        }
        if let Some((p, n)) = periodic {
            if n >= p + 3 && (p >= 2049 || n - p >= 18) {
                cx.nontrivial();
            }
            cx.label("periodic");
            cx.label_if(p == 4096, "p=4096");
            cx.label_if(p >= 2049, "p>=2049");
            cx.label_if(n - p >= 4096, "n-p>=4096");
            cx.label_if(n - p < 18, "short-tail");
        } else {
            cx.label("expansion-only");
            cx.label_if(input.len() <= 64, "len<=64");
        }
    }
}
