use crate::engine::{DynProp, Erased};

pub mod c01;
pub mod c02;
pub mod c03;
pub mod c04;
pub mod c05;
pub mod c06;
pub mod c07;
pub mod c08;
pub mod c09;
pub mod c10;
pub mod c11;
pub mod c12;
pub mod c13;
pub mod c14;
pub mod c15;
pub mod c16;
pub mod c17;
pub mod c18;
pub mod c19;
pub mod c20;
pub mod lzcommon;
pub mod prior;

pub fn registry() -> Vec<Box<dyn DynProp>> {
    vec![
        Box::new(Erased::<c01::C01>::new()),
        Box::new(Erased::<c02::C02>::new()),
        Box::new(Erased::<c03::C03>::new()),
        Box::new(Erased::<c04::C04>::new()),
        Box::new(Erased::<c05::C05>::new()),
        Box::new(Erased::<c06::C06>::new()),
        Box::new(Erased::<c07::C07>::new()),
        Box::new(Erased::<c08::C08>::new()),
        Box::new(Erased::<c09::C09>::new()),
        Box::new(Erased::<c10::C10>::new()),
        Box::new(Erased::<c11::C11>::new()),
        Box::new(Erased::<c12::C12>::new()),
        Box::new(Erased::<c13::C13>::new()),
        Box::new(Erased::<c14::C14>::new()),
        Box::new(Erased::<c15::C15>::new()),
        Box::new(Erased::<c16::C16>::new()),
        Box::new(Erased::<c17::C17>::new()),
        Box::new(Erased::<c18::C18>::new()),
        Box::new(Erased::<c19::C19>::new()),
        Box::new(Erased::<c20::C20>::new()),
    ]
}

/// repository test files (used as realistic inputs by several properties)
pub fn repo_test_files() -> Vec<String> {
    let mut v: Vec<String> = std::fs::read_dir("/repo/resources/test")
        .map(|d| {
            d.filter_map(|e| e.ok())
                .filter(|e| e.path().is_file())
                .map(|e| e.file_name().to_string_lossy().to_string())
                .collect()
        })
        .unwrap_or_default();
    v.sort();
    v
}
pub fn read_repo_test_file(name: &str) -> Vec<u8> {
    std::fs::read(format!("/repo/resources/test/{name}")).unwrap_or_default()
}
