//! C13 — layered filesystem listings are the sorted, de-duplicated union of layers.
use crate::engine::prop::{Cx, Prop, Tier};
use crate::gen::fs::{decorate, expected_localized, layer_strategy, lookup, path_strategy, payload_strategy, populate, Entry, Node, Payload, Sandbox, Tree, DIRS, GAMES, LANGS};
use mila::LayeredFilesystem;
use proptest::prelude::*;
use serde::{Deserialize, Serialize};
use std::collections::BTreeSet;

pub struct C13;

pub const PATTERNS: [Option<&str>; 7] = [None, Some("*"), Some("*.bin"), Some("**/*.bin"), Some("**/*"), Some("sub dir/*"), Some("map*")];

#[derive(Clone, Debug, Hash, Serialize, Deserialize)]
pub struct Query {
    /// directory to list ("" = root)
    pub dir: String,
    /// index into PATTERNS
    pub pattern: u8,
    pub localized: bool,
    /// list sub-directories instead
    pub subdirs: bool,
}

#[derive(Clone, Debug, Hash, Serialize, Deserialize)]
pub struct Case {
    pub game: u8,
    pub language: u8,
    pub layers: Vec<Vec<Entry>>,
    /// writes performed before the queries
    pub writes: Vec<(String, Payload, bool)>,
    pub queries: Vec<Query>,
    /// spelling of the layer directories handed to LayeredFilesystem::new (0 = canonical)
    #[serde(default)]
    pub root_style: u8,
}

/// does one path component match a component pattern made of literals and '*'?
fn comp_match(pat: &str, name: &str) -> bool {
    let p: Vec<char> = pat.chars().collect();
    let n: Vec<char> = name.chars().collect();
    fn go(p: &[char], n: &[char]) -> bool {
        match p.first() {
            None => n.is_empty(),
            Some('*') => (0..=n.len()).any(|k| go(&p[1..], &n[k..])),
            Some(c) => n.first() == Some(c) && go(&p[1..], &n[1..]),
        }
    }
    go(&p, &n)
}

/// the small glob family: '*' never crosses a '/', a '**' component matches zero or more components
pub fn glob_match(pattern: &str, rel: &str) -> bool {
    let p: Vec<&str> = pattern.split('/').collect();
    let r: Vec<&str> = rel.split('/').collect();
    fn go(p: &[&str], r: &[&str]) -> bool {
        match p.first() {
            None => r.is_empty(),
            Some(&"**") => (0..=r.len()).any(|k| go(&p[1..], &r[k..])),
            Some(c) => !r.is_empty() && comp_match(c, r[0]) && go(&p[1..], &r[1..]),
        }
    }
    // "**/*" must match at least one component
    go(&p, &r)
}

/// expected listing from the snapshots
pub fn expected_list(snaps: &[Tree], dir: &str, pattern: Option<&str>) -> Vec<String> {
    let d = dir.trim_end_matches('/');
    let d = if d == "." { "" } else { d };
    let mut out: BTreeSet<String> = BTreeSet::new();
    for t in snaps {
        // the directory must exist in this layer as a directory (a file has nothing under it)
        if !d.is_empty() && !matches!(t.get(d), Some(Node::Dir)) {
            continue;
        }
        for k in t.keys() {
            let rel = if d.is_empty() {
                k.as_str()
            } else if let Some(r) = k.strip_prefix(d).and_then(|r| r.strip_prefix('/')) {
                r
            } else {
                continue;
            };
            if glob_match(pattern.unwrap_or("**/*"), rel) {
                out.insert(k.clone());
            }
        }
    }
    // ascending order of the path strings (byte order)
    let mut v: Vec<String> = out.into_iter().collect();
    v.sort();
    v
}

pub fn expected_subdirs(snaps: &[Tree], dir: &str) -> Vec<String> {
    let d = dir.trim_end_matches('/');
    let d = if d == "." { "" } else { d };
    let mut out: BTreeSet<String> = BTreeSet::new();
    for t in snaps {
        if !d.is_empty() && !matches!(t.get(d), Some(Node::Dir)) {
            continue;
        }
        for (k, n) in t {
            let rel = if d.is_empty() {
                k.as_str()
            } else if let Some(r) = k.strip_prefix(d).and_then(|r| r.strip_prefix('/')) {
                r
            } else {
                continue;
            };
            if !rel.contains('/') && matches!(n, Node::Dir) {
                out.insert(k.clone());
            }
        }
    }
    let mut v: Vec<String> = out.into_iter().collect();
    v.sort();
    v
}

fn dir_strategy() -> BoxedStrategy<String> {
    prop_oneof![
        2 => Just(String::new()),
        1 => Just(".".to_string()),
        4 => proptest::collection::vec(proptest::sample::select(DIRS.to_vec()), 1..=3).prop_map(|v| v.join("/")),
        1 => proptest::collection::vec(proptest::sample::select(DIRS.to_vec()), 1..=2).prop_map(|v| format!("{}/", v.join("/"))),
        1 => path_strategy(),
        1 => Just("missing/dir".to_string()),
    ]
    .boxed()
}

impl Prop for C13 {
    type Case = Case;
    const ID: &'static str = "C13";
    fn rule() -> String {
        "Layer trees as in C12 (1..=4 real directories from a small component pool: nested directories, the same path in several layers, empty directories, hidden files, names whose glob order differs from byte order such as map / map.bin / map-x), \
         layer directories handed over in canonical or equivalent non-canonical spellings, optionally followed by a few writes through the filesystem, then queries: list(dir, pattern, localized) for dir in {root '', '.', existing, nested, with trailing slash, missing, a path that is a file} and pattern in {none, '*', '*.bin', '**/*.bin', '**/*', 'sub dir/*', 'map*'}, and subdirectories(dir, localized); 5 games x 8 languages. \
         Oracle, computed from a std::fs walk of every layer: the set of layer-relative paths (files and directories) strictly under dir in any layer whose dir is a directory, filtered by the harness's own matcher for that glob family, de-duplicated and sorted in ascending string order; \
         sub-directories = immediate child directories in any layer; every listed path satisfies exists(p, false); a missing directory lists as empty; list(d, g, true) == list(localize(d), g, false) (and an error for unsupported pairs). \
         Two crowded layers (700 files, 87 sub-directories, half of the names in both layers) are listed with every pattern. Every other case with writes asks all its queries before the writes as well as after them (same oracle against the directories as they are at the time). Non-trivial: >= 2 layers contribute to a result and at least one listed path occurs in two of them; or a single-layer result whose glob order differs from sorted order. Distinct = distinct case value."
            .into()
    }
    fn assumptions() -> Vec<String> {
        vec![
            "listings contain directories as well as files (interpretation 18); components are plain (no glob metacharacters)".into(),
            "the 30-line matcher in harness/src/props/c13.rs defines the small glob family ('*' within a component, '**' = zero or more components)".into(),
        ]
    }
    fn random_cases(tier: Tier) -> u64 {
        tier.pick(30_000, 1_200_000)
    }
    fn strategy(_tier: Tier) -> BoxedStrategy<Case> {
        let q = (dir_strategy(), 0u8..PATTERNS.len() as u8, prop_oneof![3 => Just(false), 1 => Just(true)], prop_oneof![4 => Just(false), 1 => Just(true)]).prop_map(|(dir, pattern, localized, subdirs)| Query { dir, pattern, localized, subdirs });
        (0u8..5, 0u8..8, proptest::collection::vec(layer_strategy(), 1..=4), proptest::collection::vec((path_strategy(), payload_strategy(), any::<bool>()), 0..3), proptest::collection::vec(q, 1..=6), prop_oneof![3 => Just(0u8), 1 => any::<u8>()])
            .prop_map(|(game, language, layers, writes, queries, root_style)| Case { game, language, layers, writes, queries, root_style })
            .boxed()
    }
    fn enumerate(_tier: Tier, shard: u64, nshards: u64, f: &mut dyn FnMut(Case) -> bool) {
        // fixed trees x every directory of the tree x every pattern x {1, 2, 3 layers}
        let file = |p: &str| Entry { path: p.into(), file: Some(Payload::Raw(vec![1])), corrupt: false };
        let dir = |p: &str| Entry { path: p.into(), file: None, corrupt: false };
        let l0 = vec![file("map/a.bin"), file("map.bin"), file("map-x"), file("m/sub dir/z.bin"), file(".hidden"), dir("empty"), file("m/@E/GameData.bin"), file("m/GameData.bin")];
        let l1 = vec![file("map/a.bin"), file("map/b.bin"), file("m/sub dir/z.bin"), dir("m/sub dir/deep/er"), file("top.bin"), dir("map.bin2"), file("m/@J/x.bin")];
        let l2 = vec![file("m/E/GameData.bin"), file("m/s_GameData.bin"), dir("map"), file("readme")];
        let dirs = ["", ".", "map", "m", "m/sub dir", "m/", "empty", "missing", "map.bin", "m/sub dir/deep"];
        let mut idx = 0u64;
        for layers in [vec![l0.clone()], vec![l0.clone(), l1.clone()], vec![l0.clone(), l1.clone(), l2.clone()], vec![l2.clone(), l0.clone()]] {
            for (gi, li) in [(2u8, 0u8), (3, 2), (4, 2), (0, 3), (1, 0), (4, 7)] {
                for d in dirs {
                    let mine = idx % nshards == shard;
                    idx += 1;
                    if !mine {
                        continue;
                    }
                    let mut queries: Vec<Query> = (0..PATTERNS.len() as u8).map(|p| Query { dir: d.to_string(), pattern: p, localized: false, subdirs: false }).collect();
                    queries.push(Query { dir: d.to_string(), pattern: 0, localized: false, subdirs: true });
                    queries.push(Query { dir: d.to_string(), pattern: 0, localized: true, subdirs: false });
                    queries.push(Query { dir: d.to_string(), pattern: 0, localized: true, subdirs: true });
                    if !f(Case { game: gi, language: li, layers: layers.clone(), writes: vec![], queries, root_style: (idx % 5) as u8 }) {
                        return;
                    }
                }
            }
        }
        // crowded directories: hundreds of files and sub-directories, half of them present in both layers
        let crowd = |from: usize, to: usize| -> Vec<Entry> {
            let mut v: Vec<Entry> = (from..to).map(|i| file(&format!("big/f{i:04}.bin"))).collect();
            v.extend((from / 8..to / 8).map(|i| dir(&format!("big/d{i:03}"))));
            v.extend((from..to).step_by(7).map(|i| file(&format!("big/d{:03}/inner{i}.bin.lz", i / 8))));
            v
        };
        for (gi, li) in [(2u8, 0u8), (0, 3)] {
            for d in ["big", "", "big/d010"] {
                let mine = idx % nshards == shard;
                idx += 1;
                if !mine {
                    continue;
                }
                let mut queries: Vec<Query> = (0..PATTERNS.len() as u8).map(|p| Query { dir: d.to_string(), pattern: p, localized: false, subdirs: false }).collect();
                queries.push(Query { dir: d.to_string(), pattern: 0, localized: false, subdirs: true });
                if !f(Case { game: gi, language: li, layers: vec![crowd(0, 420), crowd(210, 700)], writes: vec![], queries, root_style: 0 }) {
                    return;
                }
            }
        }
    }
    fn exhaustive_note(_tier: Tier) -> Option<String> {
        Some("4 fixed layer stacks (1..=3 layers with overlapping paths, empty directories, hidden files, glob-order traps) x 6 game/language configurations x 10 directories (root, '.', nested, trailing slash, empty, missing, a file) x all 7 patterns + sub-directories + localized variants; two crowded layers (700 files, 87 sub-directories, half shared) x 2 configurations x 3 directories x all patterns".into())
    }

    fn run(case: &Case, cx: &mut Cx) {
        let game = GAMES[case.game as usize % 5];
        let lang = LANGS[case.language as usize % 8];
        let nlayers = case.layers.len().clamp(1, 4);
        let sb = Sandbox::new(nlayers);
        populate(&sb, game, &case.layers[..nlayers]);
        let given: Vec<String> = sb.layers.iter().enumerate().map(|(i, l)| decorate(l, case.root_style.wrapping_add(i as u8 * (case.root_style % 3)))).collect();
        cx.label_if(case.root_style % 5 != 0, "non-canonical-layer-root-spelling");
        let fs = match cx.call(|| LayeredFilesystem::new(given.clone(), lang, game)) {
            Some(Ok(f)) => f,
            Some(Err(e)) => {
                cx.fail("filesystem-new", format!("{e}"));
                return;
            }
            None => return,
        };
        // every other case with writes asks all its queries BEFORE the writes as well (same oracle, against the directories as they are then):
        // a listing is a function of what the layers hold at the time of the call, whatever was listed before
        let before_too = !case.writes.is_empty() && (case.queries.len() + case.writes.len()) % 2 == 0;
        for after_writes in [false, true] {
        if !after_writes && !before_too {
            continue;
        }
        if after_writes {
            for (p, payload, localized) in &case.writes {
                let _ = cx.call(|| fs.write(p, &payload.bytes(), *localized));
                cx.label("after-writes");
            }
            if cx.failed() {
                return;
            }
            cx.label_if(before_too, "same-queries-before-and-after-the-writes");
        }
        let snaps = sb.snapshots();
        for (qi, q) in case.queries.iter().enumerate() {
            let pat = PATTERNS[q.pattern as usize % PATTERNS.len()];
            let name = format!("query {qi} {game:?}/{lang:?} {}({:?}, {:?}, localized={})", if q.subdirs { "subdirectories" } else { "list" }, q.dir, pat, q.localized);
            let res = match cx.call(|| if q.subdirs { fs.subdirectories(&q.dir, q.localized) } else { fs.list(&q.dir, pat, q.localized) }) {
                Some(r) => r,
                None => return,
            };
            // the directory actually listed
            let dir = if q.localized {
                // degenerate directories ("" / ".") have no final component: localisation must fail
                let degenerate = q.dir.trim_end_matches('/').is_empty() || q.dir == ".";
                match (degenerate, expected_localized(game, lang, &q.dir)) {
                    (true, _) | (_, None) => {
                        if !cx.check(res.is_err(), "unlocalizable-directory-is-an-error", || format!("{name}: returned {res:?}")) {
                            return;
                        }
                        cx.label("localized:error");
                        continue;
                    }
                    (false, Some(d)) => d,
                }
            } else {
                q.dir.clone()
            };
            let got = match res {
                Ok(g) => g,
                Err(e) => {
                    cx.fail("listing-ok", format!("{name}: {e}"));
                    return;
                }
            };
            let want = if q.subdirs { expected_subdirs(&snaps, &dir) } else { expected_list(&snaps, &dir, pat) };
            if !cx.check(got == want, if q.subdirs { "subdirectories-are-the-union-of-child-directories" } else { "listing-is-the-sorted-deduplicated-union" }, || {
                let missing: Vec<&String> = want.iter().filter(|w| !got.contains(w)).collect();
                let extra: Vec<&String> = got.iter().filter(|g| !want.contains(g)).collect();
                let sorted = got.windows(2).all(|w| w[0] < w[1]);
                format!("{name} (listing {dir:?}): got {} entries, expected {}; missing {missing:?}, unexpected {extra:?}, strictly ascending: {sorted}; got {got:?}", got.len(), want.len())
            }) {
                return;
            }
            for p in &got {
                if !cx.check(matches!(fs.exists(p, false), Ok(true)), "listed-paths-exist", || format!("{name}: listed path {p:?} does not exist according to exists()")) {
                    return;
                }
            }
            if q.localized {
                // equals the unlocalized listing of the localized directory
                match cx.call(|| if q.subdirs { fs.subdirectories(&dir, false) } else { fs.list(&dir, pat, false) }) {
                    Some(Ok(u)) => {
                        if !cx.check(u == got, "localized-listing-equals-listing-of-localized-directory", || format!("{name}: localized {got:?}, unlocalized listing of {dir:?}: {u:?}")) {
                            return;
                        }
                    }
                    Some(Err(e)) => {
                        cx.fail("localized-listing-equals-listing-of-localized-directory", format!("{name}: {e}"));
                        return;
                    }
                    None => return,
                }
                cx.label("localized:ok");
            }
            // classification
            let contributing = snaps.iter().filter(|t| got.iter().any(|p| lookup(t, p).is_some())).count();
            let dup = got.iter().any(|p| snaps.iter().filter(|t| lookup(t, p).is_some()).count() >= 2);
            let mut glob_order = got.clone();
            glob_order.sort_by(|a, b| a.split('/').collect::<Vec<_>>().cmp(&b.split('/').collect::<Vec<_>>()));
            let order_trap = glob_order != got;
            if (contributing >= 2 && dup) || (nlayers == 1 && order_trap) {
                cx.nontrivial();
            }
            cx.label_if(contributing >= 2 && dup, "same-path-in-two-layers");
            cx.label_if(order_trap, "glob-order-differs-from-sorted-order");
            cx.label_if(nlayers == 1 && order_trap, "single-layer-order-trap");
            cx.label_if(got.is_empty(), "empty-result");
            cx.label_if(got.len() > 255, "result>255-entries");
            cx.label_if(q.subdirs, "subdirectories");
            cx.label_if(!q.subdirs && pat.is_some(), "with-pattern");
        }
        }
    }
}
