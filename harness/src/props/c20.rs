//! C20 — texture containers yield the packed textures and fail cleanly when truncated.
use super::c19::{payload_for, Fill};
use crate::engine::prop::{Cx, Mix64, Prop, Tier};
use crate::gen::strings::{sjis_domain, sjis_encode};
use crate::refimpl::reftex::{self, build_bch, build_cgfx, build_ctpk, build_tpl, BuiltContainer, Fmt, Tex, TplImage, FORMATS};
use mila::{bch, cgfx, ctpk, Texture};
use proptest::prelude::*;
use serde::{Deserialize, Serialize};

pub struct C20;

#[derive(Clone, Copy, Debug, Hash, PartialEq, Eq, Serialize, Deserialize)]
pub enum Container {
    Ctpk,
    Bch,
    Cgfx,
    Tpl,
}

#[derive(Clone, Debug, Hash, Serialize, Deserialize)]
pub struct TexSpec {
    pub name: String,
    /// index into the 9 supported 3DS formats (ignored for TPL: CI8 + RGB5A3 palette)
    pub fmt: u8,
    /// 3DS: side = 256 for w >= 250, else 8 << (w % 3); TPL: 1 + w % 64
    pub w: u8,
    pub h: u8,
    pub seed: u64,
}

#[derive(Clone, Debug, Hash, Serialize, Deserialize)]
pub enum Mode {
    Full,
    WrongMagic(u32),
    /// only byte `i` (0..4) of the magic number differs (xor with a non-zero value)
    WrongMagicByte(u8, u8),
    /// one strict prefix (index-mapped cut)
    Prefix(u16),
    /// every strict prefix (files <= `limit` bytes), otherwise all cuts inside the first 1 KiB, around payload boundaries and every `stride`-th
    Cuts { limit: u32, stride: u16 },
}

#[derive(Clone, Debug, Hash, Serialize, Deserialize)]
pub struct Case {
    pub container: Container,
    pub texs: Vec<TexSpec>,
    /// 0 = the usual layout; otherwise a seeded conforming placement of tables, names and payloads
    pub placement: u64,
    pub mode: Mode,
}

fn name_char() -> BoxedStrategy<char> {
    let d = sjis_domain();
    let kana: Vec<char> = d.halfwidth.iter().copied().filter(|c| *c >= '\u{FF66}').collect();
    let kanji: Vec<char> = d.double.iter().copied().filter(|c| c.is_alphanumeric()).collect();
    prop_oneof![
        5 => proptest::char::ranges(vec!['a'..='z', 'A'..='Z', '0'..='9'].into()),
        1 => proptest::sample::select(vec!['_', '-', '.', ' ', '(', ')', '+', '~']),
        2 => proptest::sample::select(kana),
        2 => proptest::sample::select(kanji),
    ]
    .boxed()
}

fn build(case: &Case) -> (BuiltContainer, Vec<Tex>, Vec<TplImage>) {
    if case.container == Container::Tpl {
        let images: Vec<TplImage> = case
            .texs
            .iter()
            .map(|t| {
                // 1..=64 mostly; selectors >= 250 give sides of 65..=1024 (any size is in the statement's domain)
                let side = |x: u8, s: u64| if x >= 250 { 65 + (s % 960) as usize } else { 1 + (x % 64) as usize };
                let (w, h) = (side(t.w, t.seed >> 8), side(t.h, t.seed >> 24));
                let mut r = Mix64(t.seed);
                // 1..=256 entries; 1 palette in 16 has up to 1024 (the format's count is 16 bits wide; an 8-bit index reaches the first 256)
                let plen = if t.seed % 16 == 5 { 257 + (r.next() % 768) as usize } else { 1 + (r.next() % 256) as usize };
                let palette: Vec<u16> = (0..plen).map(|_| r.next() as u16).collect();
                let indices: Vec<u8> = (0..reftex::ci8_len(w, h)).map(|_| (r.next() % plen.min(256) as u64) as u8).collect();
                TplImage { w, h, indices, palette }
            })
            .collect();
        (build_tpl(&images, case.placement), Vec::new(), images)
    } else {
        let texs: Vec<Tex> = case
            .texs
            .iter()
            .map(|t| {
                let fmt = FORMATS[t.fmt as usize % 9];
                // ~2 % of random sides are 256, 512 or 1024 (the hardware maximum)
                let side = |x: u8| match x {
                    252 | 253 => 512usize,
                    254 => 1024,
                    250..=255 => 256,
                    _ => 8usize << (x % 3),
                };
                let (w, h) = (side(t.w), side(t.h));
                // 1 name in 61 is longer than any fixed-size name buffer one might think of (300+ bytes)
                let name = if t.seed % 61 == 7 {
                    let unit = if t.name.is_empty() { "long_name_".to_string() } else { t.name.clone() };
                    unit.repeat(300 / unit.len().max(1) + 1)
                } else {
                    t.name.clone()
                };
                Tex { name, w, h, fmt, payload: payload_for(fmt, w, h, &Fill::Random(t.seed)), mip_tail: if t.seed % 5 == 0 { crate::engine::prop::Mix64(t.seed ^ 77).bytes(fmt.payload_len(w, h) / 4 + fmt.payload_len(w, h) / 16) } else { Vec::new() } }
            })
            .collect();
        let mut texs = texs;
        if case.container != Container::Cgfx {
            for t in texs.iter_mut() {
                t.mip_tail.clear();
            }
        }
        let b = match case.container {
            Container::Ctpk => build_ctpk(&texs, case.placement, &|s| sjis_encode(s).unwrap_or_default()),
            Container::Bch => build_bch(&texs, case.placement),
            _ => build_cgfx(&texs, case.placement),
        };
        (b, texs, Vec::new())
    }
}

fn read(container: Container, bytes: &[u8]) -> Result<Vec<Texture>, String> {
    match container {
        Container::Ctpk => ctpk::read(bytes).map_err(|e| e.to_string()),
        Container::Bch => bch::read(bytes).map_err(|e| e.to_string()),
        Container::Cgfx => cgfx::read(bytes).map_err(|e| e.to_string()),
        Container::Tpl => mila::tpl::Tpl::extract_textures(bytes).map_err(|e| e.to_string()),
    }
}

impl Prop for C20 {
    type Case = Case;
    const ID: &'static str = "C20";
    fn rule() -> String {
        "Lists of 0..=6 textures (names from ASCII letters/digits/punctuation, half-width kana and kanji - no format characters; Shift-JIS in CTPK, UTF-8 in BCH/CGFX, none in TPL; sides 8/16/32 (occasionally 256) for the 3DS containers, any 1..=64 for TPL; any of the 9 supported formats (CI8 + RGB5A3 palette for TPL); random payloads) \
         x container in {CTPK, BCH, CGFX, TPL} x placement (0 = usual layout; otherwise a seeded conforming layout: CTPK names before/after payloads with gaps and arbitrary per-texture offsets; BCH both header shapes (compat byte <= 20 / >= 0x21), the four sections in any order with gaps, pointer table before/after the records; \
         CGFX TXOBs in any order after the DICT, names and payloads in any order after them, forward self-relative offsets, every fifth texture with a mip chain stored after its top level (size field = whole chain); TPL table, headers, palette and image data in any order). Oracle, full file: Ok, same count and order, names equal where stored, dimensions equal, pixel data equal to the reference decoding of that texture's own payload (and to mila's decoding of the same payload in a single-texture CTPK). \
         Wrong magic (BCH, CGFX, TPL; a random 32-bit value, or a single differing byte at each of the four positions) => Err. Strict prefixes (every cut for files <= 4 KiB quick / 64 KiB thorough, otherwise all cuts in the first 1 KiB, payload boundaries +-1 and a stride): no panic in either build, and Err whenever the cut lies before the end of some non-empty payload. \
         About 2 % of the sides are 256, 512 or 1 024 (hardware maximum); TPL images: sides 1..=64, 1 in 40 up to 1 024, 1 palette in 16 with 257..=1 024 entries; 1 texture name in 61 is 300+ bytes long. Non-trivial: >= 2 textures with different formats, or a non-default placement; for prefixes: the cut falls inside a payload or a table. Distinct = distinct case value."
            .into()
    }
    fn assumptions() -> Vec<String> {
        vec![
            "the builders in harness/src/refimpl/reftex.rs define 'conforming container' (written from the 3dbrew / format notes as far as the reader's fields go)".into(),
            "texture names contain no format characters (interpretation 21); BCH compatibility byte <= 20 or >= 0x21 (interpretation 22)".into(),
            "arbitrary corruption of texture containers is outside the listed properties".into(),
        ]
    }
    fn both_builds() -> bool {
        true
    }
    fn random_cases(tier: Tier) -> u64 {
        tier.pick(15_000, 1_500_000)
    }
    fn strategy(_tier: Tier) -> BoxedStrategy<Case> {
        let tex = (proptest::collection::vec(name_char(), 0..10).prop_map(|v| v.into_iter().collect::<String>()), 0u8..9, any::<u8>(), any::<u8>(), any::<u64>()).prop_map(|(name, fmt, w, h, seed)| TexSpec { name, fmt, w, h, seed });
        let mode = prop_oneof![
            4 => Just(Mode::Full),
            1 => any::<u32>().prop_map(Mode::WrongMagic),
            1 => (0u8..4, any::<u8>()).prop_map(|(i, x)| Mode::WrongMagicByte(i, x)),
            4 => any::<u16>().prop_map(Mode::Prefix),
            1 => (1u16..40).prop_map(|stride| Mode::Cuts { limit: 2048, stride }),
        ];
        // one container in five holds "sibling" textures: every texture shares the first one's dimensions and payload seed, so textures of formats
        // with equal bits per pixel carry byte-identical payloads (each must still be decoded in its own format)
        (proptest::sample::select(vec![Container::Ctpk, Container::Bch, Container::Cgfx, Container::Tpl]), proptest::collection::vec(tex, 0..=6), prop_oneof![1 => Just(0u64), 3 => any::<u64>()], mode, 0u8..5)
            .prop_map(|(container, mut texs, placement, mode, sib)| {
                if sib == 0 && texs.len() >= 2 {
                    let (w, h, seed) = (texs[0].w, texs[0].h, texs[0].seed);
                    for t in texs.iter_mut().skip(1) {
                        t.w = w;
                        t.h = h;
                        t.seed = seed;
                    }
                }
                Case { container, texs, placement, mode }
            })
            .boxed()
    }
    fn enumerate(tier: Tier, shard: u64, nshards: u64, f: &mut dyn FnMut(Case) -> bool) {
        let mut idx = 0u64;
        let limit = tier.pick(4096u32, 65536);
        for container in [Container::Ctpk, Container::Bch, Container::Cgfx, Container::Tpl] {
            for placement in 0..tier.pick(12u64, 300) {
                for ntex in [0usize, 1, 2, 3] {
                    let mine = idx % nshards == shard;
                    idx += 1;
                    if !mine {
                        continue;
                    }
                    let texs: Vec<TexSpec> = (0..ntex)
                        .map(|i| TexSpec { name: ["tex_a", "\u{FF83}\u{FF78}\u{FF7D}\u{FF81}\u{FF6C}", "\u{5730}\u{56F3}.bch", ""][(i + placement as usize) % 4].to_string(), fmt: ((placement as usize * 3 + i * 4) % 9) as u8, w: (i + placement as usize) as u8 % 2, h: placement as u8 % 2, seed: placement * 10 + i as u64 })
                        .collect();
                    for mode in [Mode::Full, Mode::WrongMagic(0x1234_5678), Mode::WrongMagicByte(0, 1), Mode::WrongMagicByte(1, 0x80), Mode::WrongMagicByte(2, 0xFF), Mode::WrongMagicByte(3, 1), Mode::WrongMagicByte(3, 0xFF), Mode::Cuts { limit, stride: 7 }] {
                        if !f(Case { container, texs: texs.clone(), placement, mode }) {
                            return;
                        }
                    }
                }
            }
        }
        // a texture of 65 536 pixels (w, h >= 250 select a side of 256 in `build`) next to a small one
        for container in [Container::Ctpk, Container::Bch, Container::Cgfx] {
            let mine = idx % nshards == shard;
            idx += 1;
            if mine && !f(Case { container, texs: vec![TexSpec { name: "big".into(), fmt: 5, w: 255, h: 255, seed: 9 }, TexSpec { name: "small".into(), fmt: 4, w: 0, h: 0, seed: 10 }], placement: 0, mode: Mode::Full }) {
                return;
            }
        }
    }
    fn exhaustive_note(tier: Tier) -> Option<String> {
        Some(format!("4 containers x {} placements x 0..=3 textures: the full file, a wrong magic, and EVERY strict prefix of files up to {} bytes (larger: all cuts in the first 1 KiB, payload boundaries +-1, every 7th)", tier.pick(12, 300), tier.pick(4096, 65536)))
    }

    fn run(case: &Case, cx: &mut Cx) {
        let (built, texs, images) = build(case);
        let file = &built.bytes;
        let n = case.texs.len();
        let check_full = |cx: &mut Cx, out: &[Texture]| -> bool {
            if !cx.check(out.len() == n, "same-count", || format!("{:?}: {} textures read, {} packed", case.container, out.len(), n)) {
                return false;
            }
            for i in 0..n {
                let t = &out[i];
                if case.container == Container::Tpl {
                    let im = &images[i];
                    if !cx.check(t.width == im.w && t.height == im.h && t.pixel_data.len() == 4 * im.w * im.h, "same-dimensions", || format!("TPL texture {i}: {}x{} with {} bytes, packed {}x{}", t.width, t.height, t.pixel_data.len(), im.w, im.h)) {
                        return false;
                    }
                    for y in 0..im.h {
                        for x in 0..im.w {
                            let want = reftex::rgb5a3(im.palette[im.indices[reftex::ci8_index(im.w, x, y)] as usize]);
                            for c in 0..4 {
                                if !want[c].admits(t.pixel_data[(y * im.w + x) * 4 + c]) {
                                    cx.fail("pixel-data-is-the-decoding-of-its-own-payload", format!("TPL texture {i} {}x{}: pixel ({x},{y}) channel {c} is {}, expected {:?}", im.w, im.h, t.pixel_data[(y * im.w + x) * 4 + c], want[c]));
                                    return false;
                                }
                            }
                        }
                    }
                    continue;
                }
                let w = &texs[i];
                if !cx.check(t.filename == w.name, "same-names", || format!("{:?} texture {i}: name {:?}, packed {:?}", case.container, t.filename, w.name)) {
                    return false;
                }
                if !cx.check(t.width == w.w && t.height == w.h, "same-dimensions", || format!("{:?} texture {i}: {}x{}, packed {}x{}", case.container, t.width, t.height, w.w, w.h)) {
                    return false;
                }
                if let Err(e) = reftex::check_image(w.fmt, &w.payload, w.w, w.h, &t.pixel_data) {
                    cx.fail("pixel-data-is-the-decoding-of-its-own-payload", format!("{:?} texture {i} ({:?}): {e}", case.container, w.name));
                    return false;
                }
                // self-consistency: the same payload alone in a CTPK decodes to the same pixels
                let single = build_ctpk(&[w.clone()], 0, &|s| sjis_encode(s).unwrap_or_default());
                if let Ok(s) = ctpk::read(&single.bytes) {
                    if !cx.check(s.len() == 1 && s[0].pixel_data == t.pixel_data, "pixel-data-is-the-decoding-of-its-own-payload", || format!("{:?} texture {i}: pixel data differs from the decoding of the same payload in a single-texture CTPK", case.container)) {
                        return false;
                    }
                }
            }
            true
        };
        let first_incomplete_payload = |cut: usize| built.payload_ranges.iter().any(|(_, e)| cut < *e);
        let mut try_cut = |cx: &mut Cx, cut: usize| -> bool {
            let res = match cx.call(|| read(case.container, &file[..cut])) {
                Some(r) => r,
                None => return false,
            };
            if first_incomplete_payload(cut) {
                if !cx.check(res.is_err(), "truncated-payload-is-an-error", || format!("{:?}: the first {cut} of {} bytes were accepted although the cut removes part of a texture payload {:?}", case.container, file.len(), built.payload_ranges)) {
                    return false;
                }
            }
            true
        };
        match &case.mode {
            Mode::Full => {
                let out = match cx.call(|| read(case.container, file)) {
                    Some(Ok(o)) => o,
                    Some(Err(e)) => {
                        cx.fail("conforming-container-accepted", format!("{:?} with {n} textures (placement {}): {e}", case.container, case.placement));
                        return;
                    }
                    None => return,
                };
                if !check_full(cx, &out) {
                    return;
                }
                cx.label("full");
            }
            Mode::WrongMagic(_) | Mode::WrongMagicByte(..) => {
                if case.container == Container::Ctpk {
                    return; // the statement lists BCH, CGFX and TPL
                }
                let mut f2 = file.clone();
                let good = [f2[0], f2[1], f2[2], f2[3]];
                let mut bad = match &case.mode {
                    Mode::WrongMagic(m) => m.to_le_bytes(),
                    Mode::WrongMagicByte(i, x) => {
                        let mut b = good;
                        b[*i as usize % 4] ^= (*x).max(1);
                        b
                    }
                    _ => unreachable!(),
                };
                if bad == good {
                    bad[0] ^= 0xFF;
                }
                f2[..4].copy_from_slice(&bad);
                let res = match cx.call(|| read(case.container, &f2)) {
                    Some(r) => r,
                    None => return,
                };
                cx.check(res.is_err(), "wrong-magic-rejected", || format!("{:?}: a file whose magic number is {bad:02x?} was accepted", case.container));
                cx.label("wrong-magic");
                cx.nontrivial();
                return;
            }
            Mode::Prefix(sel) => {
                if file.is_empty() {
                    return;
                }
                let cut = (*sel as usize * file.len()) >> 16;
                if !try_cut(cx, cut) {
                    return;
                }
                cx.label("prefix");
                if first_incomplete_payload(cut) {
                    cx.nontrivial();
                    cx.label("cut-inside-or-before-a-payload");
                }
            }
            Mode::Cuts { limit, stride } => {
                let len = file.len();
                let mut cuts: Vec<usize> = if len <= *limit as usize { (0..len).collect() } else { (0..len.min(1024)).chain((1024..len).step_by((*stride).max(1) as usize)).collect() };
                for (s, e) in &built.payload_ranges {
                    for c in [s.saturating_sub(1), *s, s + 1, e.saturating_sub(1), *e] {
                        if c < len {
                            cuts.push(c);
                        }
                    }
                }
                for cut in cuts {
                    if !try_cut(cx, cut) {
                        return;
                    }
                }
                cx.label("all-prefixes");
                cx.nontrivial();
            }
        }
        let fmts: std::collections::BTreeSet<u8> = case.texs.iter().map(|t| t.fmt % 9).collect();
        if (n >= 2 && fmts.len() >= 2 && case.container != Container::Tpl) || case.placement != 0 {
            cx.nontrivial();
        }
        cx.label(match case.container {
            Container::Ctpk => "CTPK",
            Container::Bch => "BCH",
            Container::Cgfx => "CGFX",
            Container::Tpl => "TPL",
        });
        cx.label_if(case.placement != 0, "non-default-placement");
        cx.label_if(n == 0, "no-textures");
        cx.label_if(texs.iter().enumerate().any(|(i, t)| texs[..i].iter().any(|u| u.fmt != t.fmt && u.w == t.w && u.h == t.h && u.payload == t.payload)), "identical-payloads-in-different-formats");
        cx.label_if(texs.iter().any(|t| t.w >= 512 || t.h >= 512), "side>=512");
        cx.label_if(texs.iter().any(|t| t.w == 1024 || t.h == 1024), "side=1024");
        cx.label_if(texs.iter().any(|t| t.name.len() >= 260), "name>=260-bytes");
        cx.label_if(images.iter().any(|i| i.palette.len() > 256), "TPL-palette>256-entries");
        cx.label_if(images.iter().any(|i| i.w > 64 || i.h > 64), "TPL-side>64");
        cx.label_if(texs.iter().any(|t| !t.mip_tail.is_empty()), "cgfx-mip-chain");
        cx.label_if(case.texs.iter().any(|t| !t.name.is_ascii()) && case.container != Container::Tpl, "non-ascii-name");
        let _ = Fmt::Rgba8;
    }
}
