//! C07 — text archive is an insertion-ordered map with symmetric newline escaping.
use crate::engine::prop::{Cx, Prop, Tier};
use mila::{Endian, TextArchive, TextArchiveFormat};
use proptest::prelude::*;
use serde::{Deserialize, Serialize};

pub struct C07;

#[derive(Clone, Debug, Hash, Serialize, Deserialize)]
pub enum Op {
    Set(String, String),
    Delete(String),
    Has(String),
    Get(String),
    SetTitle(String),
    /// set(k, get(k)) for a present key: must change nothing
    Resave(String),
    /// serialize + from_bytes; the history continues on the parsed archive (dirty must be clear)
    Reparse,
    /// the current content written as a text-archive FILE by the harness's own writer - optionally with one key labelling a
    /// second, later message as well - and parsed; the history continues on the parsed archive (dirty must be clear)
    ParseForeign(Option<u16>),
}

#[derive(Clone, Debug, Hash, Serialize, Deserialize)]
pub struct Case {
    pub ops: Vec<Op>,
}

const KEYS: [&str; 3] = ["a", "b", "c"];
const MSGS: [&str; 6] = ["", "x", "\n", "\\n", "\\\\n", "a\\nb\nc\\"];

fn escape(stored: &str) -> String {
    stored.replace('\n', "\\n")
}
fn unescape(input: &str) -> String {
    input.replace("\\n", "\n")
}

fn exhaustive_ops() -> Vec<Op> {
    let mut v = Vec::new();
    for k in KEYS {
        for m in MSGS {
            v.push(Op::Set(k.into(), m.into()));
        }
        v.push(Op::Delete(k.into()));
        v.push(Op::Resave(k.into()));
    }
    v.push(Op::Reparse);
    v.push(Op::ParseForeign(Some(0)));
    v
}

impl Prop for C07 {
    type Case = Case;
    const ID: &'static str = "C07";
    fn rule() -> String {
        "Histories of set_message / delete_message / has_message / get_message / set_title / set(k, get(k)) / serialize+re-parse / parse of a file written by the harness's own text-archive writer (optionally with a duplicated key) starting from an empty archive are applied to the real archive and to an ordered-list model \
         (set replaces in place or appends, delete removes in place, stored text = input with backslash-n sequences turned into newlines, lookup = stored text with every newline escaped). After EVERY step: get_entries keys \
         in model order with the stored values, has_message and get_message for every key of the alphabet, the dirty flag (clear on a new and on a parsed archive, set after any set, never cleared, never raised by lookups), set(k, get(k)) changes nothing. \
         Bounded-exhaustive: all histories of length <= 4 (quick) / 5 (thorough) over 26 operations (3 keys x 6 messages mixing escape sequences, real newlines, double backslashes and trailing backslashes; delete; resave; re-parse; parse of a harness-written file in which the first key also labels a second message); random: 30 keys, messages over \
         {letters, newline, backslash, n, CR, CJK}, <= 60 operations. Non-trivial: the history deletes a present key that is not the last one and sets a key afterwards, or stores a message holding both an escape sequence and a real newline, or sets on a parsed archive. Distinct = distinct case value."
            .into()
    }
    fn assumptions() -> Vec<String> {
        vec!["the ordered-list model in harness/src/props/c07.rs is the statement".into()]
    }
    fn random_cases(tier: Tier) -> u64 {
        tier.pick(40_000, 3_000_000)
    }
    fn strategy(tier: Tier) -> BoxedStrategy<Case> {
        let key = prop_oneof![4 => (0u8..6).prop_map(|i| format!("k{i}")), 1 => (0u8..30).prop_map(|i| format!("key{i}"))];
        let msg = proptest::collection::vec(
            prop_oneof![
                3 => proptest::sample::select(vec!["a", "n", "\\", "\n", "\\n", "\r", "\r\n", "\u{3042}", " "]).prop_map(|s| s.to_string()),
                1 => "[a-z]{1,4}",
            ],
            0..10,
        )
        .prop_map(|v| v.concat());
        let op = prop_oneof![
            6 => (key.clone(), msg.clone()).prop_map(|(k, m)| Op::Set(k, m)),
            3 => key.clone().prop_map(Op::Delete),
            1 => key.clone().prop_map(Op::Has),
            2 => key.clone().prop_map(Op::Get),
            1 => msg.prop_map(Op::SetTitle),
            2 => key.prop_map(Op::Resave),
            1 => Just(Op::Reparse),
            1 => proptest::option::of(any::<u16>()).prop_map(Op::ParseForeign),
        ];
        proptest::collection::vec(op, 1..=tier.pick(30, 60)).prop_map(|ops| Case { ops }).boxed()
    }
    fn enumerate(tier: Tier, shard: u64, nshards: u64, f: &mut dyn FnMut(Case) -> bool) {
        let ops = exhaustive_ops();
        let n = ops.len() as u64;
        let maxlen = tier.pick(4u32, 5);
        let mut idx = 0u64;
        for len in 1..=maxlen {
            for code in 0..n.pow(len) {
                let mine = idx % nshards == shard;
                idx += 1;
                if !mine {
                    continue;
                }
                let mut x = code;
                let mut h = Vec::with_capacity(len as usize);
                for _ in 0..len {
                    h.push(ops[(x % n) as usize].clone());
                    x /= n;
                }
                if !f(Case { ops: h }) {
                    return;
                }
            }
        }
    }
    fn exhaustive_note(tier: Tier) -> Option<String> {
        Some(format!("all histories of length 1..={} over 26 operations (3 keys x 6 messages, delete x3, resave x3, re-parse, foreign parse)", tier.pick(4, 5)))
    }
    fn shrink(c: &Case) -> Vec<Case> {
        (0..c.ops.len())
            .filter(|_| c.ops.len() > 1)
            .map(|i| {
                let mut ops = c.ops.clone();
                ops.remove(i);
                Case { ops }
            })
            .collect()
    }

    fn run(case: &Case, cx: &mut Cx) {
        let mut t = TextArchive::new(TextArchiveFormat::Unicode, Endian::Little);
        let mut model: Vec<(String, String)> = Vec::new();
        let mut dirty = false;
        let mut title = String::new();
        let mut alphabet: Vec<String> = KEYS.iter().map(|s| s.to_string()).collect();
        for op in &case.ops {
            if let Op::Set(k, _) | Op::Delete(k) | Op::Has(k) | Op::Get(k) | Op::Resave(k) = op {
                if !alphabet.contains(k) {
                    alphabet.push(k.clone());
                }
            }
        }
        let (mut deleted_middle, mut parsed) = (false, false);
        if !cx.check(!t.is_dirty(), "dirty-flag", || "a new archive reports dirty".into()) {
            return;
        }
        for (i, op) in case.ops.iter().enumerate() {
            let name = format!("step {i} {op:?}");
            match op {
                Op::Set(k, msg) => {
                    if cx.call(|| t.set_message(k, msg)).is_none() {
                        return;
                    }
                    let s = unescape(msg);
                    if s.contains('\n') && msg.contains("\\n") && msg.contains('\n') {
                        cx.nontrivial();
                        cx.label("message-with-escape-and-real-newline");
                    }
                    match model.iter_mut().find(|(k2, _)| k2 == k) {
                        Some(e) => e.1 = s,
                        None => model.push((k.clone(), s)),
                    }
                    dirty = true;
                    if deleted_middle {
                        cx.nontrivial();
                        cx.label("set-after-middle-delete");
                    }
                    if parsed {
                        cx.nontrivial();
                        cx.label("set-on-parsed-archive");
                    }
                }
                Op::Delete(k) => {
                    if cx.call(|| t.delete_message(k)).is_none() {
                        return;
                    }
                    if let Some(p) = model.iter().position(|(k2, _)| k2 == k) {
                        if p + 1 != model.len() {
                            deleted_middle = true;
                        }
                        model.remove(p);
                    }
                }
                Op::Has(k) => {
                    let got = t.has_message(k);
                    if !cx.check(got == model.iter().any(|(k2, _)| k2 == k), "has-message", || format!("{name}: returned {got}")) {
                        return;
                    }
                }
                Op::Get(k) => {
                    let got = match cx.call(|| t.get_message(k)) {
                        Some(g) => g,
                        None => return,
                    };
                    let want = model.iter().find(|(k2, _)| k2 == k).map(|(_, v)| escape(v));
                    if !cx.check(got == want, "lookup-returns-last-value-escaped", || format!("{name}: returned {got:?}, expected {want:?}")) {
                        return;
                    }
                }
                Op::SetTitle(s) => {
                    t.set_title(s.clone());
                    title = s.clone();
                }
                Op::Resave(k) => {
                    if let Some(v) = t.get_message(k) {
                        let before: Vec<(String, String)> = t.get_entries().iter().map(|(a, b)| (a.clone(), b.clone())).collect();
                        t.set_message(k, &v);
                        let after: Vec<(String, String)> = t.get_entries().iter().map(|(a, b)| (a.clone(), b.clone())).collect();
                        if !cx.check(before == after, "store-back-changes-nothing", || format!("{name}: entries before {before:?}, after {after:?}")) {
                            return;
                        }
                        dirty = true; // "set after any set"
                        cx.label("resave");
                        if parsed {
                            cx.nontrivial();
                            cx.label("set-on-parsed-archive");
                        }
                    }
                }
                Op::ParseForeign(_) => {}
                Op::Reparse => {
                    // titles are stored as Shift-JIS: only reparse when it is encodable
                    if !crate::gen::strings::is_sjis_lossless(&title) || title.contains('\0') {
                        continue;
                    }
                    if model.iter().any(|(k, _)| !crate::gen::strings::is_sjis_lossless(k)) {
                        continue;
                    }
                    let bytes = match cx.call(|| t.serialize()) {
                        Some(Ok(b)) => b,
                        Some(Err(e)) => {
                            cx.fail("serialize-ok", format!("{name}: {e}"));
                            return;
                        }
                        None => return,
                    };
                    t = match cx.call(|| TextArchive::from_bytes(&bytes, TextArchiveFormat::Unicode, Endian::Little)) {
                        Some(Ok(r)) => r,
                        Some(Err(e)) => {
                            cx.fail("reparse-ok", format!("{name}: {e}"));
                            return;
                        }
                        None => return,
                    };
                    dirty = false;
                    parsed = true;
                    cx.label("re-parsed");
                }
            }
            if let Op::ParseForeign(dup) = op {
                if crate::gen::strings::is_sjis_lossless(&title) && !title.contains('\0') && model.iter().all(|(k, v)| crate::gen::strings::is_sjis_lossless(k) && !k.contains('\0') && !v.contains('\0')) {
                    // own writer: title (Shift-JIS, NUL, padded to 4), messages (UTF-16LE, 2 NULs, padded to 4), one label per message
                    let mut data: Vec<u8> = crate::gen::strings::sjis_encode(&title).unwrap_or_default();
                    data.push(0);
                    while data.len() % 4 != 0 {
                        data.push(0);
                    }
                    let mut labels: std::collections::BTreeMap<u32, Vec<String>> = Default::default();
                    let mut put = |data: &mut Vec<u8>, k: &str, v: &str| {
                        labels.entry(data.len() as u32).or_default().push(k.to_string());
                        for u in v.encode_utf16() {
                            data.extend_from_slice(&u.to_le_bytes());
                        }
                        data.extend_from_slice(&[0, 0]);
                        while data.len() % 4 != 0 {
                            data.push(0);
                        }
                    };
                    for (k, v) in &model {
                        put(&mut data, k, v);
                    }
                    let before_foreign = model.clone();
                    let labels_dup = dup.is_some() && !model.is_empty();
                    if let (Some(sel), false) = (dup, model.is_empty()) {
                        let i = (*sel as usize * model.len()) >> 16;
                        let k = model[i].0.clone();
                        put(&mut data, &k, "second message under the same key");
                        // the map keeps the key's place and the last value read
                        model[i].1 = "second message under the same key".to_string();
                        cx.label("foreign-file-with-duplicate-key");
                        cx.nontrivial();
                    }
                    let content = crate::gen::archive::ArchiveContent { big_endian: false, data, cells: Default::default(), labels };
                    let bytes = crate::refimpl::refbin::write_canonical(&content, None);
                    let has_dup = matches!((dup, labels_dup), (Some(_), true));
                    match cx.call(|| TextArchive::from_bytes(&bytes, TextArchiveFormat::Unicode, Endian::Little)) {
                        Some(Ok(r)) => {
                            t = r;
                            dirty = false;
                            parsed = true;
                            cx.label("parsed-foreign-file");
                            if has_dup {
                                // what a duplicated key means is not stated: adopt the parser's reading of the file
                                model = t.get_entries().iter().map(|(a, b)| (a.clone(), b.clone())).collect();
                            }
                        }
                        Some(Err(e)) => {
                            // a file in which one key labels two messages may be rejected; a file with distinct keys may not
                            if !has_dup {
                                cx.fail("reparse-ok", format!("{name}: a conforming text-archive file written by the harness was rejected: {e}"));
                                return;
                            }
                            model = before_foreign;
                            cx.label("foreign-file-with-duplicate-key-rejected");
                        }
                        None => return,
                    }
                }
            }
            // full comparison after every step
            let got: Vec<(String, String)> = t.get_entries().iter().map(|(a, b)| (a.clone(), b.clone())).collect();
            if !cx.check(got == model, "insertion-order-and-values", || format!("{name}: entries {got:?}, model {model:?}")) {
                return;
            }
            for k in &alphabet {
                let want = model.iter().find(|(k2, _)| k2 == k).map(|(_, v)| escape(v));
                let g = t.get_message(k);
                if !cx.check(g == want, "lookup-returns-last-value-escaped", || format!("{name}: get_message({k:?}) = {g:?}, expected {want:?}")) {
                    return;
                }
                if !cx.check(t.has_message(k) == want.is_some(), "has-message", || format!("{name}: has_message({k:?}) = {}", t.has_message(k))) {
                    return;
                }
            }
            // "clear on a new or parsed archive and set after any set": other modifications (delete, set_title) may raise it too,
            // lookups may not, and nothing may clear it
            if !dirty && t.is_dirty() && matches!(op, Op::Delete(_) | Op::SetTitle(_)) {
                dirty = true;
            }
            if !cx.check(t.is_dirty() == dirty, "dirty-flag", || format!("{name}: is_dirty() = {}, expected {dirty}", t.is_dirty())) {
                return;
            }
            if !cx.check(t.get_title() == title, "title", || format!("{name}: title {:?}, expected {title:?}", t.get_title())) {
                return;
            }
        }
        cx.label_if(deleted_middle, "middle-delete");
    }
}
