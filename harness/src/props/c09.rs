//! C09 — LZ13 compression emits a valid 0x13-wrapped LZ11 stream that expands to the input;
//! never panics or aborts, the empty input included.
use super::lzcommon::{enumerate_small, shrink_input, LzInput};
use crate::engine::prop::{Cx, Prop, Tier};
use crate::gen::bytes::{lz_input, BytesSpec};
use crate::refimpl::reflz::{self, Kind, Token};
use mila::{CompressionFormat, LZ13CompressionFormat};
use proptest::prelude::*;

pub struct C09;

/// boundary inputs appended to the bounded-exhaustive tier (runs are cheap for the compressor)
pub fn boundary_inputs(tier: Tier) -> Vec<LzInput> {
    let mut v = vec![
        LzInput::Spec(BytesSpec::Raw(vec![])),
        LzInput::Spec(BytesSpec::Run { byte: 0xAB, len: 0xFFFF }),
        LzInput::Spec(BytesSpec::Run { byte: 0, len: 0x10000 }),
        LzInput::Spec(BytesSpec::Run { byte: 7, len: 0x10001 }),
    ];
    // exact match lengths at every length-form edge: block, separator, same block, separator
    for l in [3u32, 15, 16, 17, 18, 19, 271, 272, 273, 274, 4095, 4096, 4097] {
        v.push(LzInput::Spec(BytesSpec::SelfSimilar { prefix: l, seed: 0x5EED_0000 + l as u64, copies: vec![(l, l, 2)] }));
        v.push(LzInput::Spec(BytesSpec::Concat(vec![
            BytesSpec::Random { len: l, seed: 77 + l as u64 },
            BytesSpec::Raw(vec![0xFE]),
            BytesSpec::Random { len: l, seed: 77 + l as u64 },
            BytesSpec::Raw(vec![0xFD]),
        ])));
    }
    // a repeat exactly d bytes back, for d around the window edge
    for d in [4094u32, 4095, 4096, 4097, 4098] {
        v.push(LzInput::Spec(BytesSpec::Concat(vec![
            BytesSpec::Raw(vec![1, 2, 3, 4, 5, 6, 7, 8]),
            BytesSpec::Random { len: d - 8, seed: 1234 + d as u64 },
            BytesSpec::Raw(vec![1, 2, 3, 4, 5, 6, 7, 8, 0]),
        ])));
        v.push(LzInput::Spec(BytesSpec::Periodic { period: d, len: d + 40, seed: 99 + d as u64, alphabet: 0 }));
    }
    // lengths around 64 KiB (bits 16..23 of the 24-bit length fields): nearly incompressible and run + incompressible tail
    v.push(LzInput::Spec(BytesSpec::Random { len: 60_000, seed: 0x60000 }));
    v.push(LzInput::Spec(BytesSpec::Random { len: 65_535, seed: 0x65535 }));
    v.push(LzInput::Spec(BytesSpec::Concat(vec![BytesSpec::Run { byte: 0, len: 65_500 }, BytesSpec::Random { len: 35, seed: 35 }])));
    v.push(LzInput::Spec(BytesSpec::Concat(vec![BytesSpec::Run { byte: 0, len: 131_000 }, BytesSpec::Random { len: 60, seed: 60 }])));
    // the statement's size limit: just below 16 MiB (a constant run is cheap to compress)
    let _ = tier;
    v.push(LzInput::Spec(BytesSpec::Run { byte: 0x5A, len: 0xFF_FFFF }));
    v.push(LzInput::Spec(BytesSpec::Run { byte: 0x5A, len: 0xFF_FFFE }));
    // ... and a run with an incompressible tail ending just below 16 MiB: the wrapper's own 24-bit quantity (a size estimate that
    // exceeds the input length for such inputs) passes 2^24 while the input is still inside the statement's domain
    v.push(LzInput::Spec(BytesSpec::Concat(vec![BytesSpec::Run { byte: 0, len: 0xFF_FFFF - 200 }, BytesSpec::Random { len: 190, seed: 190 }])));
    v
}

impl Prop for C09 {
    type Case = LzInput;
    const ID: &'static str = "C09";

    fn rule() -> String {
        "Inputs: every byte string over {0,1} up to length 12 (quick) / 16 (thorough) and over {0,1,2} up to 8 / 10; the repository's test files; \
         boundary inputs built to contain a match of exactly 3,15..19,271..274,4095..4097 bytes and a repeat exactly 4094..4098 bytes back, long runs \
         (0xFFFF..0x10001 bytes and 16 MiB-1, 16 MiB-2, and a 16 MiB-210 run followed by 190 random bytes) and the empty input; random structured inputs as in C08 (<= 12 KiB quick / 100 KiB thorough). \
         Oracle (non-empty input): Ok(out); out[0]=0x13, len>=8; an independent strict LZ11 reader accepts out[4..] (24-bit length = input length, \
         each reference in one of the three length forms with the length in that form's range, 1<=disp<=4096, disp<=produced, exact termination, nothing left over); \
         reference expansion, LZ13CompressionFormat::decompress and CompressionFormat::LZ13.decompress return the input. Bytes 1..4 of the wrapper are unconstrained. \
         Every input incl. empty: Ok or Err, no panic (checked build) and no abort (worker process isolation), both builds. \
         One case in four is preceded on the same thread by decompress() of a foreign literal-only, zero-padded stream of the same bytes, and the repository-file cases by compress() of a 16 MiB input (outside the domain; outcomes ignored): the oracle is unchanged. Non-trivial: token list has a back-reference, or input shorter than 3 bytes. Distinct = distinct case value."
            .into()
    }
    fn assumptions() -> Vec<String> {
        vec![
            "the reference LZ11 reader/expander in harness/src/refimpl/reflz.rs is the format definition".into(),
            "random inputs are bounded by 100 KiB (the header pre-pass is O(n*4096)); only constant runs approach 16 MiB".into(),
        ]
    }
    fn both_builds() -> bool {
        true
    }
    fn random_cases(tier: Tier) -> u64 {
        tier.pick(2_500, 100_000)
    }
    fn strategy(tier: Tier) -> BoxedStrategy<LzInput> {
        lz_input(tier.pick(12_000, 100_000)).prop_map(LzInput::Spec).boxed()
    }
    fn enumerate(tier: Tier, shard: u64, nshards: u64, f: &mut dyn FnMut(LzInput) -> bool) {
        for (i, c) in boundary_inputs(tier).into_iter().enumerate() {
            if i as u64 % nshards == shard && !f(c) {
                return;
            }
        }
        enumerate_small(tier.pick(12, 16), tier.pick(8, 10), shard, nshards, f)
    }
    fn exhaustive_note(tier: Tier) -> Option<String> {
        Some(format!(
            "all byte strings over {{0,1}} of length 0..={} and over {{0,1,2}} of length 2..={}; plus a fixed list of length-form / window-edge boundary inputs",
            tier.pick(12, 16),
            tier.pick(8, 10)
        ))
    }
    fn shrink(c: &LzInput) -> Vec<LzInput> {
        shrink_input(c)
    }

    fn run(case: &LzInput, cx: &mut Cx) {
        let input = case.bytes();
        // prior history on this thread (outcomes ignored): one case in four decompresses a foreign stream of the same bytes first; the repository-file
        // cases first hand the compressor an input of exactly 16 MiB (outside the statement's domain: it may fail, and must not leave anything behind)
        let h = crate::engine::prop::fnv(&input);
        if h % 4 == 0 && input.len() <= 200_000 && !input.is_empty() {
            let foreign = super::prior::foreign_stream(&input, true);
            super::prior::quiet(|| LZ13CompressionFormat.decompress(&foreign).is_ok());
            cx.label("after-decompressing-a-foreign-stream-of-the-same-bytes");
        }
        if matches!(case, LzInput::File(name) if name.contains("LZ1")) {
            let big = vec![0x5Au8; 1 << 24];
            super::prior::quiet(|| LZ13CompressionFormat.compress(&big).is_ok());
            cx.label("after-compressing-an-input-of-16MiB");
        }
        let res = match cx.call(|| LZ13CompressionFormat.compress(&input)) {
            Some(r) => r,
            None => return,
        };
        if input.is_empty() {
            // Ok or Err, both fine; if Ok, decompressing it must not panic either
            cx.label("empty-input");
            cx.nontrivial();
            if let Ok(o) = &res {
                cx.mix_bytes(o);
                let _ = cx.call(|| LZ13CompressionFormat.decompress(o));
            }
            return;
        }
        let out = match res {
            Ok(o) => o,
            Err(e) => {
                cx.fail("compress-ok", format!("compress returned Err({e}) for a non-empty input of {} bytes", input.len()));
                return;
            }
        };
        cx.mix_bytes(&out);
        if !cx.check(out.len() >= 8 && out[0] == 0x13, "wrapper", || format!("output does not start with a 4-byte 0x13 wrapper + LZ11 header: {:02x?}", &out[..out.len().min(16)])) {
            return;
        }
        let parsed = match reflz::parse(Kind::Lz11, &out[4..]) {
            Ok(p) => p,
            Err(m) => {
                cx.fail("stream-well-formed", format!("reference LZ11 reader rejects out[4..]: {m:?}; input len {}, output starts {:02x?}", input.len(), &out[..out.len().min(48)]));
                return;
            }
        };
        if !cx.check(parsed.declared == input.len(), "header-length", || format!("LZ11 header declares {} bytes, input has {}", parsed.declared, input.len())) {
            return;
        }
        let mut refs = 0;
        let (mut f1, mut f2, mut f3, mut max_disp, mut max_len) = (false, false, false, 0u32, 0u32);
        for t in &parsed.tokens {
            if let Token::Ref { len, disp } = *t {
                refs += 1;
                max_disp = max_disp.max(disp);
                max_len = max_len.max(len);
                match reflz::lz11_form(len) {
                    1 => f1 = true,
                    2 => f2 = true,
                    _ => f3 = true,
                }
                if !(1..=4096).contains(&disp) {
                    cx.fail("reference-range", format!("reference disp {disp} outside 1..=4096"));
                    return;
                }
            }
        }
        let expanded = reflz::expand(&parsed.tokens);
        if !cx.check(expanded.as_deref() == Some(&input[..]), "reference-expansion", || {
            let e = expanded.clone().unwrap_or_default();
            let first = e.iter().zip(input.iter()).position(|(a, b)| a != b);
            format!("independent expansion of the emitted tokens differs from the input (input len {}, expansion len {}, first difference at {:?})", input.len(), e.len(), first)
        }) {
            return;
        }
        match cx.call(|| LZ13CompressionFormat.decompress(&out)) {
            Some(Ok(d)) => {
                if !cx.check(d == input, "library-round-trip", || format!("LZ13 decompress(compress(x)) != x for input of {} bytes", input.len())) {
                    return;
                }
            }
            Some(Err(e)) => {
                cx.fail("library-round-trip", format!("LZ13 decompress rejected the library's own output: {e}"));
                return;
            }
            None => return,
        }
        match cx.call(|| CompressionFormat::LZ13(LZ13CompressionFormat).decompress(&out)) {
            Some(Ok(d)) => {
                cx.check(d == input, "format-dispatch-round-trip", || "CompressionFormat::LZ13 decompress(compress(x)) != x".into());
            }
            Some(Err(e)) => cx.fail("format-dispatch-round-trip", format!("CompressionFormat::LZ13 rejected the output: {e}")),
            None => return,
        }
        if let Some(Ok(o2)) = cx.call(|| CompressionFormat::LZ13(LZ13CompressionFormat).compress(&input)) {
            cx.check(o2 == out, "format-dispatch-compress", || "CompressionFormat::LZ13.compress differs from LZ13CompressionFormat.compress".into());
        }

        if refs > 0 || input.len() < 3 {
            cx.nontrivial();
        }
        cx.label_if(refs > 0, "has-reference");
        cx.label_if(f1, "form-2-byte(len<=16)");
        cx.label_if(f2, "form-3-byte(17..272)");
        cx.label_if(f3, "form-4-byte(>=273)");
        cx.label_if(max_len == 4096, "max-length-4096");
        cx.label_if(max_len == 272, "len-272");
        cx.label_if(max_len == 273, "len-273");
        cx.label_if(max_disp == 4096, "disp-4096");
        cx.label_if(parsed.tokens.len() % 8 != 0, "ends-mid-group");
        cx.label_if(input.len() > 4096, "longer-than-window");
    }
}
