//! C14 — path localisation inserts the game's language marker and nothing else.
use crate::engine::prop::{Cx, Prop, Tier};
use crate::gen::fs::{expected_localized, lookup, marker, payload_strategy, snapshot, Marker, Node, Payload, Sandbox, GAMES, LANGS};
use mila::{FE10PathLocalizer, FE13PathLocalizer, FE14PathLocalizer, FE15PathLocalizer, FE9PathLocalizer, LayeredFilesystem, NoOpPathLocalizer, PathLocalizer};
use proptest::prelude::*;
use serde::{Deserialize, Serialize};

pub struct C14;

#[derive(Clone, Debug, Hash, Serialize, Deserialize)]
pub enum Case {
    /// localizer 0..6 (NoOp, FE9, FE10, FE13, FE14, FE15) x language 0..8 x path
    Localize { localizer: u8, language: u8, path: String },
    /// localized filesystem operations address the same on-disk location
    Fs { game: u8, language: u8, path: String, payload: Payload, layers: u8 },
}

/// plain components, among them components spelled like a marker of each marker family (FE13 "E", FE14 "@E", FE15 "@NOE_SP", FE9/10 "s_", "e_")
pub const PALETTE: [&str; 11] = ["m", "GameData.bin.lz", "sub dir", "\u{30C6}\u{30AD}\u{30B9}\u{30C8}", "@mods", "a.b-c_d", "@E", "e_common.m", "s_", "@NOE_SP", "E"];

fn localizer_of(i: u8) -> (PathLocalizer, Option<mila::Game>) {
    match i % 6 {
        0 => (PathLocalizer::NoOp(NoOpPathLocalizer), None),
        1 => (PathLocalizer::FE9(FE9PathLocalizer), Some(mila::Game::FE9)),
        2 => (PathLocalizer::FE10(FE10PathLocalizer), Some(mila::Game::FE10)),
        3 => (PathLocalizer::FE13(FE13PathLocalizer), Some(mila::Game::FE13)),
        4 => (PathLocalizer::FE14(FE14PathLocalizer), Some(mila::Game::FE14)),
        _ => (PathLocalizer::FE15(FE15PathLocalizer), Some(mila::Game::FE15)),
    }
}

/// paths without a final component: must be an error
fn degenerate(path: &str) -> bool {
    let comps: Vec<&str> = path.split('/').filter(|c| !c.is_empty() && *c != ".").collect();
    comps.is_empty() || comps.last() == Some(&"..")
}
/// odd-but-resolvable shapes (./a, a//b, a/., absolute): only panic-freedom is asserted
fn odd(path: &str) -> bool {
    path.starts_with('/') || path.contains("//") || path.split('/').any(|c| c == "." || c == "..") || path.split('/').any(|c| !c.is_empty() && c.trim().is_empty())
}

fn component() -> BoxedStrategy<String> {
    prop_oneof![
        3 => proptest::sample::select(PALETTE.to_vec()).prop_map(|s| s.to_string()),
        2 => "[A-Za-z0-9_@+~,=.-]{1,10}".prop_filter("plain", |s| s != "." && s != ".."),
        1 => "[A-Za-z]{1,4} [A-Za-z]{1,4}",
        1 => proptest::collection::vec(proptest::sample::select(vec!['\u{3042}', '\u{30C6}', '\u{6587}', 'x', '_']), 1..5).prop_map(|v| v.into_iter().collect()),
    ]
    .boxed()
}

impl Prop for C14 {
    type Case = Case;
    const ID: &'static str = "C14";
    fn rule() -> String {
        "Exhaustive: 6 localizers (NoOp, FE9, FE10, FE13, FE14, FE15) x 8 languages x every path of depth 1..=4 over a 9-component palette (ASCII, with dots, with a space, CJK, '@'-prefixed, language-marker and file-prefix look-alikes such as '@E', 'e_common.m', 's_') \
         with and without a trailing slash (quick: depth <= 3) plus degenerate paths ('', '/', '..', 'a/..', '.', './a', 'a//b', 'a/.'); random: random plain components. Oracle: a specification table written from the statement \
         (directory markers E U - S F G I / @E @U - @S @F @G @I / @NOA_EN @NOE_EN @J @NOE_SP @NOE_FR @NOE_GE @NOE_IT @NOE_DU, file-name prefixes s_ d_ i_ f_ (+ e_ for FE10), none for Japanese (and English in FE9), Dutch unsupported except FE15, NoOp = identity): \
         expected = directory part + '/' + marker + final component, a single component gets the marker appended; unsupported pairs and paths without a final component => Err; odd-but-resolvable shapes only must not panic. \
         Filesystem clause (real directories, 1..=3 layers, 5 games x 8 languages): a localized write lands at top/expected on disk, localized read / exists / file_exists / resolve / list of the parent address the same location, the unlocalized path is untouched; \
         for unsupported pairs every localized operation reports an error (resolve: None). Components spelled like a marker of each family (E, @E, @NOE_SP, s_, e_) occur at every depth; after a localized write the same directories are opened with every other language of the game, and where that language's location differs and holds nothing no localized operation may see the file. Non-trivial: a language with a marker and depth >= 2, or an error case. Distinct = distinct case value."
            .into()
    }
    fn assumptions() -> Vec<String> {
        vec![
            "the marker table in harness/src/gen/fs.rs (transcribed from the statement / the games' on-disc names, cross-checked against the eight unit tests) is the specification".into(),
            "components are plain: no glob metacharacters, not whitespace-only, not '.'/'..' (interpretation 17)".into(),
        ]
    }
    fn random_cases(tier: Tier) -> u64 {
        tier.pick(30_000, 2_000_000)
    }
    fn strategy(_tier: Tier) -> BoxedStrategy<Case> {
        let path = (proptest::collection::vec(component(), 1..=4), any::<bool>()).prop_map(|(c, slash)| {
            let mut p = c.join("/");
            if slash {
                p.push('/');
            }
            p
        });
        prop_oneof![
            3 => (0u8..6, 0u8..8, path.clone()).prop_map(|(localizer, language, path)| Case::Localize { localizer, language, path }),
            1 => (0u8..6, 0u8..8, proptest::sample::select(vec!["", "/", "..", "a/..", ".", "./a", "a//b", "a/.", "../a", " ", "a/ /b"])).prop_map(|(localizer, language, p)| Case::Localize { localizer, language, path: p.to_string() }),
            2 => (0u8..5, 0u8..8, path, payload_strategy(), 1u8..=3).prop_map(|(game, language, path, payload, layers)| Case::Fs { game, language, path, payload, layers }),
        ]
        .boxed()
    }
    fn enumerate(tier: Tier, shard: u64, nshards: u64, f: &mut dyn FnMut(Case) -> bool) {
        let mut idx = 0u64;
        let mut emit = |c: Case| -> bool {
            let mine = idx % nshards == shard;
            idx += 1;
            !mine || f(c)
        };
        let maxdepth = tier.pick(3usize, 4);
        let mut paths: Vec<String> = vec!["".into(), "/".into(), "..".into(), "a/..".into(), ".".into(), "./a".into(), "a//b".into(), "a/.".into()];
        let n = PALETTE.len();
        for depth in 1..=maxdepth {
            for code in 0..n.pow(depth as u32) {
                let mut x = code;
                let mut comps = Vec::new();
                for _ in 0..depth {
                    comps.push(PALETTE[x % n]);
                    x /= n;
                }
                paths.push(comps.join("/"));
                if code % 3 == 0 {
                    paths.push(format!("{}/", comps.join("/")));
                }
            }
        }
        for localizer in 0u8..6 {
            for language in 0u8..8 {
                for p in &paths {
                    if !emit(Case::Localize { localizer, language, path: p.clone() }) {
                        return;
                    }
                }
            }
        }
        // filesystem clause: every game x language on a few paths
        for game in 0u8..5 {
            for language in 0u8..8 {
                for p in ["m/GameData.bin.lz", "m", "@mods/patch.bin", "data/sub dir/file.cmp", "a/b/c/d.bin"] {
                    if !emit(Case::Fs { game, language, path: p.to_string(), payload: Payload::Repeat(game * 8 + language, 40), layers: 1 + (language % 3) }) {
                        return;
                    }
                }
            }
        }
    }
    fn exhaustive_note(tier: Tier) -> Option<String> {
        Some(format!("all 48 localizer x language pairs x every path of depth 1..={} over a 9-component palette (+ trailing-slash variants) and 8 degenerate paths; the filesystem clause for all 40 game x language pairs on 5 paths", tier.pick(3, 4)))
    }

    fn run(case: &Case, cx: &mut Cx) {
        match case {
            Case::Localize { localizer, language, path } => {
                let (loc, game) = localizer_of(*localizer);
                let lang = LANGS[*language as usize % 8];
                let res = match cx.call(|| loc.localize(path, &lang)) {
                    Some(r) => r,
                    None => return,
                };
                cx.label(match localizer % 6 {
                    0 => "NoOp",
                    1 => "FE9",
                    2 => "FE10",
                    3 => "FE13",
                    4 => "FE14",
                    _ => "FE15",
                });
                let game = match game {
                    None => {
                        // NoOp is the identity
                        cx.check(res.as_deref().ok() == Some(path.as_str()), "noop-is-identity", || format!("NoOp localizer: {path:?} -> {res:?}"));
                        return;
                    }
                    Some(g) => g,
                };
                if marker(game, lang).is_none() {
                    cx.nontrivial();
                    cx.label("unsupported-pair");
                    cx.check(res.is_err(), "unsupported-pair-is-an-error", || format!("{game:?}/{lang:?}: {path:?} -> {res:?}, expected an error"));
                    return;
                }
                if degenerate(path) {
                    cx.nontrivial();
                    cx.label("degenerate-path");
                    cx.check(res.is_err(), "path-without-final-component-is-an-error", || format!("{game:?}/{lang:?}: {path:?} -> {res:?}, expected an error"));
                    return;
                }
                if odd(path) {
                    cx.label("odd-shape(no-panic-only)");
                    return;
                }
                let want = expected_localized(game, lang, path).unwrap();
                if !cx.check(res.as_deref().ok() == Some(want.as_str()), "marker-inserted-between-directory-and-final-component", || format!("{game:?}/{lang:?}: {path:?} -> {res:?}, expected {want:?}")) {
                    return;
                }
                let depth = path.split('/').filter(|c| !c.is_empty()).count();
                let has_marker = !matches!(marker(game, lang), Some(Marker::Dir("")) | Some(Marker::Prefix("")));
                if has_marker && depth >= 2 {
                    cx.nontrivial();
                }
                cx.label_if(depth == 1, "single-component");
                cx.label_if(path.ends_with('/'), "trailing-slash");
                cx.label_if(path.split('/').any(|c| c.starts_with('@')), "@-component");
            }
            Case::Fs { game, language, path, payload, layers } => {
                let g = GAMES[*game as usize % 5];
                let lang = LANGS[*language as usize % 8];
                let sb = Sandbox::new((*layers).clamp(1, 3) as usize);
                let fs = match cx.call(|| LayeredFilesystem::new(sb.layers.clone(), lang, g)) {
                    Some(Ok(f)) => f,
                    Some(Err(e)) => {
                        cx.fail("filesystem-new", format!("{e}"));
                        return;
                    }
                    None => return,
                };
                let top = sb.layers.last().unwrap().clone();
                let bytes = payload.bytes();
                // the filesystem's localizer is the game's localizer (same mapping as the standalone API and the table)
                for probe in ["m/GameData.bin.lz", "m", "a/b/c.bin", "x/"] {
                    let got = fs.localizer().localize(probe, &lang).ok();
                    let want = expected_localized(g, lang, probe);
                    if !cx.check(got == want, "fs-uses-the-game-localizer", || format!("{g:?}/{lang:?}: fs.localizer().localize({probe:?}) = {got:?}, expected {want:?}")) {
                        return;
                    }
                }
                // paths without a final component are errors for every localized operation, whatever the language
                for bad in ["", "/", "..", "m/.."] {
                    let outcomes = (
                        fs.exists(bad, true).is_err(),
                        fs.file_exists(bad, true).is_err(),
                        fs.directory_exists(bad, true).is_err(),
                        fs.read(bad, true).is_err(),
                        fs.list(bad, None, true).is_err(),
                        fs.subdirectories(bad, true).is_err(),
                        fs.resolve(bad, true).is_none(),
                    );
                    if !cx.check(outcomes == (true, true, true, true, true, true, true), "fs-path-without-final-component-is-an-error-everywhere", || {
                        format!("{g:?}/{lang:?}: localized operations on {bad:?}: (exists, file_exists, directory_exists, read, list, subdirectories are errors; resolve is None) = {outcomes:?}")
                    }) {
                        return;
                    }
                }
                // a file path (no trailing slash) so that writing is meaningful
                let path = path.trim_end_matches('/');
                if path.is_empty() {
                    return;
                }
                let want = expected_localized(g, lang, path);
                // nothing is there yet: for every other path the localized queries are asked first (and must say so); what they answered
                // before the write must not influence what they answer after it
                if path.len() % 2 == 0 && want.is_some() {
                    let before = cx.call(|| (fs.read(path, true).is_err(), matches!(fs.exists(path, true), Ok(false)), matches!(fs.file_exists(path, true), Ok(false)), fs.resolve(path, true).is_none(), fs.list(path, None, true).map(|v| v.is_empty()).unwrap_or(true)));
                    match before {
                        Some(b) => {
                            if !cx.check(b == (true, true, true, true, true), "fs-nothing-there-before-the-write", || format!("{g:?}/{lang:?} {path:?} on empty layers: (read is_err, exists = false, file_exists = false, resolve = None, list empty) = {b:?}")) {
                                return;
                            }
                        }
                        None => return,
                    }
                    cx.label("fs-queried-before-the-localized-write");
                }
                let w = match cx.call(|| fs.write(path, &bytes, true)) {
                    Some(r) => r,
                    None => return,
                };
                match &want {
                    None => {
                        cx.nontrivial();
                        cx.label("fs:unsupported-pair");
                        // even when a file sits at the unlocalized path
                        let _ = fs.write(path, &bytes, false);
                        if !cx.check(fs.resolve(path, true).is_none() && fs.read(path, true).is_err() && fs.exists(path, true).is_err(), "fs-unsupported-pair-is-an-error-everywhere", || {
                            format!("{g:?}/{lang:?} {path:?}: with a file at the unlocalized path, resolve(localized) = {:?}, read is_err {}, exists {:?}", fs.resolve(path, true), fs.read(path, true).is_err(), fs.exists(path, true).map_err(|_| ()))
                        }) {
                            return;
                        }
                        let _ = std::fs::remove_dir_all(&top);
                        let _ = std::fs::create_dir_all(&top);
                        // every localized operation must report the error
                        let all_err = w.is_err()
                            && fs.read(path, true).is_err()
                            && fs.exists(path, true).is_err()
                            && fs.file_exists(path, true).is_err()
                            && fs.directory_exists(path, true).is_err()
                            && fs.list(path, None, true).is_err()
                            && fs.subdirectories(path, true).is_err()
                            && fs.create_dir(path, true).is_err()
                            && fs.resolve(path, true).is_none();
                        if !cx.check(all_err, "fs-unsupported-pair-is-an-error-everywhere", || {
                            format!(
                                "{g:?}/{lang:?} {path:?}: write {:?} read {:?} exists {:?} file_exists {:?} directory_exists {:?} list {:?} subdirectories {:?} resolve {:?}",
                                w.is_err(),
                                fs.read(path, true).is_err(),
                                fs.exists(path, true).map_err(|_| ()),
                                fs.file_exists(path, true).map_err(|_| ()),
                                fs.directory_exists(path, true).map_err(|_| ()),
                                fs.list(path, None, true).is_err(),
                                fs.subdirectories(path, true).is_err(),
                                fs.resolve(path, true)
                            )
                        }) {
                            return;
                        }
                        let snap = snapshot(&top);
                        cx.check(snap.is_empty(), "fs-unsupported-pair-writes-nothing", || format!("top layer after a rejected localized write: {:?}", snap.keys().collect::<Vec<_>>()));
                    }
                    Some(want) => {
                        let single = !path.contains('/');
                        // a single component localises to a directory-shaped path ("m/E/"): writing a file there cannot succeed for
                        // directory markers; only the mapping of the other operations is checked in that case
                        if want.ends_with('/') {
                            cx.label("fs:single-component-directory");
                            let _ = cx.call(|| fs.create_dir(path, true));
                            let snap = snapshot(&top);
                            let key = want.trim_end_matches('/');
                            if !cx.check(matches!(lookup(&snap, key), Some(Node::Dir)), "fs-localized-create-dir-location", || format!("{g:?}/{lang:?}: create_dir({path:?}, localized) did not create {key:?}; top layer has {:?}", snap.keys().collect::<Vec<_>>())) {
                                return;
                            }
                            cx.check(matches!(fs.directory_exists(path, true), Ok(true)) && matches!(fs.exists(path, true), Ok(true)), "fs-localized-queries-same-location", || format!("{g:?}/{lang:?}: directory_exists/exists({path:?}, localized) do not see {key:?}"));
                            return;
                        }
                        if let Err(e) = &w {
                            cx.fail("fs-localized-write-ok", format!("{g:?}/{lang:?}: write({path:?}, localized) failed: {e}"));
                            return;
                        }
                        // create_dir applies the same mapping, also when the unlocalized directory already exists
                        {
                            let d = format!("{path}.d");
                            let want_d = expected_localized(g, lang, &d).unwrap();
                            let r1 = fs.create_dir(&d, false);
                            let r2 = fs.create_dir(&d, true);
                            let snap = snapshot(&top);
                            let ok = r1.is_ok() && r2.is_ok() && matches!(lookup(&snap, &d), Some(Node::Dir)) && matches!(lookup(&snap, want_d.trim_end_matches('/')), Some(Node::Dir)) && matches!(fs.directory_exists(&d, true), Ok(true));
                            if !cx.check(ok, "fs-localized-create-dir-location", || format!("{g:?}/{lang:?}: create_dir({d:?}) unlocalized then localized: results {:?} {:?}; expected directories {d:?} and {want_d:?}; top layer has {:?}; directory_exists(localized) = {:?}", r1.is_ok(), r2.is_ok(), snap.keys().collect::<Vec<_>>(), fs.directory_exists(&d, true).ok())) {
                                return;
                            }
                            let _ = std::fs::remove_dir_all(std::path::Path::new(&top).join(&d));
                            if want_d != d && !want_d.starts_with(&format!("{d}/")) {
                                let _ = std::fs::remove_dir_all(std::path::Path::new(&top).join(want_d.trim_end_matches('/')));
                            }
                        }
                        let snap = snapshot(&top);
                        if !cx.check(matches!(lookup(&snap, want), Some(Node::File(_))), "fs-localized-write-location", || format!("{g:?}/{lang:?}: localized write of {path:?} should land at {want:?}; top layer has {:?}", snap.keys().collect::<Vec<_>>())) {
                            return;
                        }
                        let files: Vec<&String> = snap.iter().filter(|(_, n)| matches!(n, Node::File(_))).map(|(k, _)| k).collect();
                        if !cx.check(files.len() == 1, "fs-localized-write-nothing-else", || format!("files in the top layer after one write: {files:?}")) {
                            return;
                        }
                        // the other operations address the same location
                        match cx.call(|| fs.read(path, true)) {
                            Some(Ok(b)) => {
                                if !(bytes.is_empty() && !crate::gen::fs::is_lz10_game(g) && path.ends_with(".lz")) {
                                    if !cx.check(b == bytes, "fs-localized-read-same-location", || format!("{g:?}/{lang:?}: localized read of {path:?} returned {} bytes, wrote {}", b.len(), bytes.len())) {
                                        return;
                                    }
                                }
                            }
                            Some(Err(e)) => {
                                if !(bytes.is_empty() && !crate::gen::fs::is_lz10_game(g) && path.ends_with(".lz")) {
                                    cx.fail("fs-localized-read-same-location", format!("{g:?}/{lang:?}: localized read of {path:?} failed after the localized write: {e}"));
                                    return;
                                }
                            }
                            None => return,
                        }
                        let q = (fs.exists(path, true).ok(), fs.file_exists(path, true).ok(), fs.directory_exists(path, true).ok());
                        if !cx.check(q == (Some(true), Some(true), Some(false)), "fs-localized-queries-same-location", || format!("{g:?}/{lang:?} {path:?}: (exists, file_exists, directory_exists) localized = {q:?}")) {
                            return;
                        }
                        let r = fs.resolve(path, true);
                        let want_full = std::path::Path::new(&top).join(want);
                        let same_file = r.as_ref().map(|p| std::fs::canonicalize(p).ok() == std::fs::canonicalize(&want_full).ok()).unwrap_or(false);
                        if !cx.check(same_file, "fs-localized-resolve-same-location", || format!("resolve -> {r:?}, expected {want_full:?}")) {
                            return;
                        }
                        // (skipped when the localized location lies below the unlocalized path, e.g. "m" -> "m/f_" or "m/E" -> "m/E/E")
                        if want != path && !want.starts_with(&format!("{path}/")) {
                            let u = (fs.exists(path, false).ok(), fs.read(path, false).is_ok());
                            if !cx.check(u == (Some(false), false), "fs-unlocalized-path-untouched", || format!("{g:?}/{lang:?}: the unlocalized path {path:?} exists after a localized write to {want:?}: {u:?}")) {
                                return;
                            }
                        }
                        // localized listing of the parent directory contains the written location
                        if !single {
                            let parent = &path[..path.rfind('/').unwrap()];
                            // list(dir, localized) lists the localized directory: for directory markers that is parent/marker/
                            if let Some(Marker::Dir(_)) = marker(g, lang) {
                                let dir_local = expected_localized(g, lang, parent);
                                let _ = dir_local;
                            }
                            match cx.call(|| fs.list(&want[..want.rfind('/').unwrap()], None, false)) {
                                Some(Ok(l)) => {
                                    if !cx.check(l.contains(want), "fs-listing-same-location", || format!("unlocalized listing of the localized directory does not contain {want:?}: {l:?}")) {
                                        return;
                                    }
                                }
                                Some(Err(e)) => {
                                    cx.fail("fs-listing-same-location", format!("{e}"));
                                    return;
                                }
                                None => return,
                            }
                        }
                        // the same directories seen through every OTHER language of the game: where that language's location differs
                        // and nothing is stored there, no localized operation may find the file written for `lang`
                        let snap = snapshot(&top);
                        for other in LANGS {
                            if format!("{other:?}") == format!("{lang:?}") {
                                continue;
                            }
                            let want2 = match expected_localized(g, other, path) {
                                Some(w2) => w2,
                                None => continue,
                            };
                            if want2 == *want || lookup(&snap, want2.trim_end_matches('/')).is_some() {
                                continue;
                            }
                            let fs2 = match cx.call(|| LayeredFilesystem::new(sb.layers.clone(), other, g)) {
                                Some(Ok(f)) => f,
                                _ => continue,
                            };
                            let seen = (fs2.read(path, true).is_ok(), fs2.exists(path, true).ok(), fs2.file_exists(path, true).ok(), fs2.resolve(path, true).is_some());
                            if !cx.check(seen == (false, Some(false), Some(false), false), "fs-other-language-addresses-another-location", || {
                                format!("{g:?}: {path:?} was written localized for {lang:?} (at {want:?}); for {other:?} (location {want2:?}, nothing stored there) (read ok, exists, file_exists, resolve is some) = {seen:?}")
                            }) {
                                return;
                            }
                            cx.label("fs:seen-through-another-language");
                        }
                        let has_marker = want != path;
                        if has_marker {
                            cx.nontrivial();
                        }
                        cx.label("fs:localized-write-read");
                    }
                }
            }
        }
    }
}
