//! C06 — text archive round trip preserves title, key order and every message.
use crate::engine::prop::{Cx, Prop, Tier};
use crate::gen::strings::{sjis_decode, sjis_string, unicode_string};
use crate::refimpl::refbin;
use mila::{Endian, TextArchive, TextArchiveFormat};
use proptest::prelude::*;
use serde::{Deserialize, Serialize};

pub struct C06;

#[derive(Clone, Debug, Hash, Serialize, Deserialize)]
pub enum Edit {
    SetTitle(String),
    /// delete the key at this (index-mapped) position
    Delete(u16),
    /// overwrite the message of the key at this position
    Reset(u16, String),
    /// add a new key
    Add(String, String),
}

#[derive(Clone, Debug, Hash, Serialize, Deserialize)]
pub struct Case {
    pub unicode: bool,
    pub big_endian: bool,
    pub title: String,
    /// distinct keys with their messages, in insertion order
    pub entries: Vec<(String, String)>,
    /// applied to the RE-PARSED archive, followed by a second serialize -> parse
    pub edits: Vec<Edit>,
}

fn fmt(c: &Case) -> (TextArchiveFormat, Endian) {
    (if c.unicode { TextArchiveFormat::Unicode } else { TextArchiveFormat::ShiftJIS }, if c.big_endian { Endian::Big } else { Endian::Little })
}

/// what set_message stores (the escape layer is C07's business)
fn stored(m: &str) -> String {
    m.replace("\\n", "\n")
}

struct ModelT {
    title: String,
    entries: Vec<(String, String)>,
}

/// oracle 1: the library's own parser; oracle 2: the image read by the independent reader
fn check_round_trip(cx: &mut Cx, what: &str, c: &Case, t: &TextArchive, m: &ModelT) -> Option<TextArchive> {
    let (format, endian) = fmt(c);
    let bytes = match cx.call(|| t.serialize()) {
        Some(Ok(b)) => b,
        Some(Err(e)) => {
            cx.fail("serialize-ok", format!("{what}: serialize failed: {e}"));
            return None;
        }
        None => return None,
    };
    cx.mix_bytes(&bytes);
    let re = match cx.call(|| TextArchive::from_bytes(&bytes, format, endian)) {
        Some(Ok(r)) => r,
        Some(Err(e)) => {
            cx.fail("reparse-ok", format!("{what}: from_bytes rejected the archive's own serialization: {e}"));
            return None;
        }
        None => return None,
    };
    if c.unicode && !cx.check(re.get_title() == m.title, "title", || format!("{what}: title {:?}, expected {:?}", re.get_title(), m.title)) {
        return None;
    }
    let got: Vec<(String, String)> = re.get_entries().iter().map(|(k, v)| (k.clone(), v.clone())).collect();
    if !cx.check(got == m.entries, "entries-in-order", || {
        let i = got.iter().zip(m.entries.iter()).position(|(a, b)| a != b).unwrap_or(got.len().min(m.entries.len()));
        format!("{what}: {} entries re-read, {} expected; first difference at #{i}: {:?} vs {:?}", got.len(), m.entries.len(), got.get(i), m.entries.get(i))
    }) {
        return None;
    }
    if !cx.check(!re.is_dirty(), "parsed-archive-clean", || format!("{what}: a freshly parsed archive reports dirty")) {
        return None;
    }
    // independent reader: every message starts on a 4-byte boundary and carries its key as the label of that address
    let img = match refbin::parse(&bytes, c.big_endian) {
        Ok(i) => i,
        Err(e) => {
            cx.fail("image-well-formed", format!("{what}: reference reader cannot read the file: {e}"));
            return None;
        }
    };
    if !cx.check(img.defects.is_empty() && img.np == 0, "image-well-formed", || format!("{what}: defects {:?}, pointer count {}", img.defects, img.np)) {
        return None;
    }
    let mut labels: Vec<(u32, String)> = img.labels.iter().map(|(a, n, _)| (*a, n.clone())).collect();
    labels.sort_by_key(|x| x.0);
    let keys: Vec<&String> = m.entries.iter().map(|(k, _)| k).collect();
    if !cx.check(labels.iter().map(|x| &x.1).collect::<Vec<_>>() == keys, "file-labels-are-keys-in-order", || format!("{what}: labels by address {:?}, keys {:?}", labels, keys)) {
        return None;
    }
    let data = &img.data;
    // "In the file every message starts on a 4-byte boundary and carries its key as the label of that address."
    // (where the title sits, what the padding bytes are and whether anything follows the last message is not stated
    //  and not asserted; title and messages are checked through the parser above)
    for ((addr, _), (key, msg)) in labels.iter().zip(m.entries.iter()) {
        let addr = *addr as usize;
        if !cx.check(addr % 4 == 0, "message-aligned", || format!("{what}: message of key {key:?} starts at unaligned address {addr}")) {
            return None;
        }
        let decoded: Option<String>;
        if c.unicode {
            let mut units = Vec::new();
            let mut p = addr;
            loop {
                match (data.get(p), data.get(p + 1)) {
                    (Some(a), Some(b)) => {
                        p += 2;
                        if *a == 0 && *b == 0 {
                            break;
                        }
                        units.push(u16::from_le_bytes([*a, *b]));
                    }
                    _ => {
                        cx.fail("file-message", format!("{what}: message of key {key:?} is not terminated inside the data"));
                        return None;
                    }
                }
            }
            decoded = String::from_utf16(&units).ok();
            // a big-endian archive may store the code units in the archive's byte order: accept that reading as well
            if c.big_endian && decoded.as_deref() != Some(msg.as_str()) {
                let swapped: Vec<u16> = units.iter().map(|u| u.swap_bytes()).collect();
                if String::from_utf16(&swapped).ok().as_deref() == Some(msg.as_str()) {
                    continue;
                }
            }
        } else {
            let n = match data.get(addr..).and_then(|d| d.iter().position(|b| *b == 0)) {
                Some(n) => n,
                None => {
                    cx.fail("file-message", format!("{what}: message of key {key:?} is not terminated inside the data"));
                    return None;
                }
            };
            decoded = sjis_decode(&data[addr..addr + n]);
        }
        if !cx.check(decoded.as_deref() == Some(msg.as_str()), "file-message", || format!("{what}: bytes at the label of key {key:?} decode to {decoded:?}, expected {msg:?}")) {
            return None;
        }
    }
    Some(re)
}

fn key_strategy() -> BoxedStrategy<String> {
    prop_oneof![
        3 => "[A-Za-z_]{1,12}".prop_map(|s| format!("MID_{s}")),
        2 => sjis_string(8),
        1 => Just(String::new()),
    ]
    .boxed()
}

impl Prop for C06 {
    type Case = Case;
    const ID: &'static str = "C06";
    fn rule() -> String {
        "A text archive (format Unicode/ShiftJIS x endianness, title, ordered list of distinct keys incl. the empty key, messages of every length mod 4 incl. empty; UTF-16 messages over all of Unicode with planted astral, \
         BOM-like (U+FEFF, U+FFFE, U+BBEF U+00BF), zero-byte-containing code units; Shift-JIS-lossless text for the legacy format; the empty archive) is built with set_title/set_message, serialized and re-parsed with the same format and \
         endianness: title (Unicode), keys in order and every message must be equal, the parsed archive must be clean; the file is also read by the independent reference reader: every message starts on a 4-byte boundary, carries its \
         key as the label of that address, decodes (own UTF-16LE / Shift-JIS decoder) to the message, labels in address order = key order. The re-parsed archive is then edited \
         (set_title, delete_message, set_message, new keys) and must round-trip again. 1 archive in 100 has 300..=1 500 entries (thorough 3 000), 1 message in 250 is a short message repeated 40..400 times (thousands of code units, text sections beyond 64 KiB), and in 1 archive of 4 some keys carry byte-identical messages. Non-trivial: >= 2 entries, or a message with a non-BMP / BOM-like / zero-byte code unit, or an empty message, or the empty archive. Distinct = distinct case value."
            .into()
    }
    fn assumptions() -> Vec<String> {
        vec![
            "titles and keys are Shift-JIS-lossless, NUL-free (the format stores both as Shift-JIS, interpretation 13)".into(),
            "refbin + String::from_utf16 / encoding_rs without BOM handling are the reference decoders".into(),
        ]
    }
    fn both_builds() -> bool {
        true
    }
    fn random_cases(tier: Tier) -> u64 {
        tier.pick(60_000, 3_000_000)
    }
    fn strategy(tier: Tier) -> BoxedStrategy<Case> {
        let max_entries = tier.pick(12usize, 120);
        let many = tier.pick(1500usize, 3000);
        (any::<bool>(), any::<bool>()).prop_flat_map(move |(unicode, big_endian)| {
            // mostly short messages; 1 in 250 is a short message repeated into thousands of code units
            let long = move |s: BoxedStrategy<String>| (s, 40usize..400).prop_map(|(m, k)| m.repeat(k)).boxed();
            let msg = move || if unicode { prop_oneof![200 => unicode_string(12), 49 => unicode_string(40), 1 => long(unicode_string(24))].boxed() } else { prop_oneof![200 => sjis_string(12), 49 => sjis_string(40), 1 => long(sjis_string(24))].boxed() };
            let edit = prop_oneof![
                2 => sjis_string(10).prop_map(Edit::SetTitle),
                3 => any::<u16>().prop_map(Edit::Delete),
                2 => (any::<u16>(), msg()).prop_map(|(i, m)| Edit::Reset(i, m)),
                1 => (key_strategy(), msg()).prop_map(|(k, m)| Edit::Add(k, m)),
            ];
            (
                sjis_string(10),
                // 1 in 100: hundreds to thousands of entries (label and pointer tables beyond 8-bit counts, text beyond 64 KiB)
                prop_oneof![10 => Just(0usize), 80 => 0..=max_entries.min(12), 9 => 0..=max_entries, 1 => 300..=many].prop_flat_map(move |n| proptest::collection::vec((key_strategy(), msg()), n)),
                proptest::collection::vec(edit, 0..4),
                // 1 case in 4: some keys carry byte-identical messages (copied from another entry)
                prop_oneof![3 => Just(Vec::new()), 1 => proptest::collection::vec((any::<u16>(), any::<u16>()), 1..4)],
            )
                .prop_map(move |(title, raw, edits, copies)| {
                    let mut entries: Vec<(String, String)> = Vec::new();
                    let mut seen = std::collections::HashSet::new();
                    for (k, m) in raw {
                        if seen.insert(k.clone()) {
                            entries.push((k, m));
                        }
                    }
                    for (a, b) in copies {
                        if entries.len() >= 2 {
                            let (i, j) = ((a as usize * entries.len()) >> 16, (b as usize * entries.len()) >> 16);
                            if i != j {
                                entries[j].1 = entries[i].1.clone();
                            }
                        }
                    }
                    Case { unicode, big_endian, title, entries, edits }
                })
        })
        .boxed()
    }
    fn enumerate(_tier: Tier, shard: u64, nshards: u64, f: &mut dyn FnMut(Case) -> bool) {
        // every message length 0..=9 (all residues mod 4 for both encodings), BOM look-alikes at the start and in the middle, the empty archive, x 4 format/endian combos
        let mut idx = 0u64;
        let specials = ["\u{FEFF}abc", "\u{FFFE}abc", "\u{BBEF}\u{00BF}abc", "ab\u{FEFF}c", "\u{FEFF}", "\u{1F600}", "\u{0100}\u{0041}", "a\u{10FFFF}", "\u{FFFF}"];
        for unicode in [true, false] {
            for big_endian in [false, true] {
                let mut cases: Vec<Case> = vec![Case { unicode, big_endian, title: String::new(), entries: vec![], edits: vec![] }, Case { unicode, big_endian, title: "\u{30BF}\u{30A4}\u{30C8}\u{30EB}".into(), entries: vec![], edits: vec![Edit::Add("k".into(), "v".into())] }];
                for len in 0..=9usize {
                    let m: String = "abcdefghij"[..len].to_string();
                    cases.push(Case { unicode, big_endian, title: "t".repeat(len), entries: vec![("K1".into(), m.clone()), ("".into(), m.clone()), ("K3".into(), "end".into())], edits: vec![Edit::Delete(0), Edit::SetTitle("new".into())] });
                }
                if unicode {
                    for s in specials {
                        cases.push(Case { unicode, big_endian, title: "T".into(), entries: vec![("A".into(), s.to_string()), ("B".into(), format!("x{s}"))], edits: vec![Edit::Reset(0, s.to_string())] });
                    }
                }
                for c in cases {
                    let mine = idx % nshards == shard;
                    idx += 1;
                    if mine && !f(c) {
                        return;
                    }
                }
            }
        }
    }
    fn exhaustive_note(_tier: Tier) -> Option<String> {
        Some("fixed family: empty archive, every message/title length 0..=9, BOM look-alikes and astral characters at the start / in the middle of UTF-16 messages, x {Unicode, ShiftJIS} x {LE, BE}, each followed by an edit + second round trip".into())
    }

    fn run(case: &Case, cx: &mut Cx) {
        let (format, endian) = fmt(case);
        let mut t = TextArchive::new(format, endian);
        if !cx.check(!t.is_dirty(), "new-archive-clean", || "a new archive reports dirty".into()) {
            return;
        }
        t.set_title(case.title.clone());
        let mut m = ModelT { title: case.title.clone(), entries: Vec::new() };
        for (k, msg) in &case.entries {
            t.set_message(k, msg);
            m.entries.push((k.clone(), stored(msg)));
        }
        // one archive in three has a failed save behind it: a key without a Shift-JIS form is set, a save attempted (outcome ignored), the key deleted
        if case.entries.len() % 3 == 1 {
            t.set_message(super::prior::UNENCODABLE, "x");
            super::prior::quiet(|| t.serialize().is_ok());
            t.delete_message(super::prior::UNENCODABLE);
            cx.label("after-a-failed-save-of-this-object");
        }
        let re = match check_round_trip(cx, "first round trip", case, &t, &m) {
            Some(r) => r,
            None => return,
        };
        // classification on the initial content
        let interesting = |s: &str| s.chars().any(|c| c as u32 > 0xFFFF || matches!(c, '\u{FEFF}' | '\u{FFFE}' | '\u{BBEF}') || (c as u32) & 0xFF == 0 || (c as u32) < 0x100);
        let has_special = case.unicode && m.entries.iter().any(|(_, v)| v.chars().any(|c| c as u32 > 0xFFFF || matches!(c, '\u{FEFF}' | '\u{FFFE}' | '\u{BBEF}') || ((c as u32) & 0xFF == 0)));
        let _ = interesting;
        let has_empty = m.entries.iter().any(|(_, v)| v.is_empty());
        if m.entries.len() >= 2 || has_special || has_empty || m.entries.is_empty() {
            cx.nontrivial();
        }
        cx.label(match (case.unicode, case.big_endian) {
            (true, false) => "Unicode/LE",
            (true, true) => "Unicode/BE",
            (false, false) => "ShiftJIS/LE",
            (false, true) => "ShiftJIS/BE",
        });
        cx.label_if(m.entries.is_empty(), "empty-archive");
        cx.label_if(case.entries.len() > 255, ">255-entries");
        {
            let mut seen = std::collections::HashSet::new();
            let (mut dup, mut dup_long) = (false, false);
            for (_, v) in &case.entries {
                if !seen.insert(v.as_str()) {
                    dup = true;
                    dup_long |= v.len() >= 48;
                }
            }
            cx.label_if(dup, "two-keys-with-identical-messages");
            cx.label_if(dup_long, "two-keys-with-identical-messages>=48-bytes");
        }
        cx.label_if(case.entries.iter().any(|(_, v)| v.len() > 2000), "message>2000-bytes");
        cx.label_if(case.entries.iter().map(|(_, v)| v.len()).sum::<usize>() > 65_536, "text>64KiB");
        cx.label_if(has_empty, "empty-message");
        cx.label_if(has_special, "astral/BOM-like/zero-byte-unit");
        cx.label_if(case.unicode && m.entries.iter().any(|(_, v)| v.starts_with('\u{FEFF}') || v.starts_with('\u{FFFE}') || v.starts_with('\u{BBEF}')), "BOM-like-first-char");
        cx.label_if(m.entries.iter().any(|(k, _)| k.is_empty()), "empty-key");
        // second generation: edit the PARSED archive, then round-trip again
        if case.edits.is_empty() {
            return;
        }
        let mut t2 = re;
        if !case.unicode {
            m.title = String::new(); // the legacy format has no title
            if !cx.check(t2.get_title().is_empty(), "legacy-title", || format!("legacy format re-parsed with title {:?}", t2.get_title())) {
                return;
            }
        }
        for e in &case.edits {
            match e {
                Edit::SetTitle(s) => {
                    t2.set_title(s.clone());
                    m.title = s.clone();
                }
                Edit::Delete(sel) => {
                    if !m.entries.is_empty() {
                        let i = ((*sel as usize) * m.entries.len()) >> 16;
                        let k = m.entries.remove(i).0;
                        t2.delete_message(&k);
                    }
                }
                Edit::Reset(sel, msg) => {
                    if !m.entries.is_empty() {
                        let i = ((*sel as usize) * m.entries.len()) >> 16;
                        t2.set_message(&m.entries[i].0.clone(), msg);
                        m.entries[i].1 = stored(msg);
                    }
                }
                Edit::Add(k, msg) => {
                    t2.set_message(k, msg);
                    match m.entries.iter_mut().find(|(k2, _)| k2 == k) {
                        Some(e) => e.1 = stored(msg),
                        None => m.entries.push((k.clone(), stored(msg))),
                    }
                }
            }
        }
        cx.label("edited-after-parse");
        if !case.unicode {
            m.title = String::new();
        }
        let _ = check_round_trip(cx, "round trip after editing the parsed archive", case, &t2, &m);
    }
}
