//! C08 — LZ10 compression emits a valid stream that expands to the input.
use super::lzcommon::{enumerate_small, shrink_input, LzInput};
use crate::engine::prop::{Cx, Prop, Tier};
use crate::gen::bytes::lz_input;
use crate::refimpl::reflz::{self, Kind, Token};
use mila::{CompressionFormat, LZ10CompressionFormat};
use proptest::prelude::*;

pub struct C08;

impl Prop for C08 {
    type Case = LzInput;
    const ID: &'static str = "C08";

    fn rule() -> String {
        "Inputs: (i) every byte string over {0,1} up to length 13 (quick) / 18 (thorough) and over {0,1,2} up to length 8 / 11, \
         (ii) the repository's test files and a fixed list of boundary inputs (exact match lengths 3..4097, repeats exactly 4094..4098 bytes back, constant runs of 0xFFFF..0x10001 and of 16 MiB-1 / 16 MiB-2 bytes), (iii) random structured inputs (runs, periodic data with periods around the 4096 window edge, \
         self-similar data with chosen copy distances/lengths around 1,2,18,19,4095..4097, incompressible data, lengths around the 8-token and \
         18-byte boundaries; up to 20 KiB quick / 300 KiB thorough). Oracle: compress is Ok; an independent strict LZ10 reader accepts the output \
         (type 0x10, 24-bit LE length = input length, references 3..=18 long with 1 <= disp <= 4096 and disp <= bytes produced, exact termination, \
         no trailing bytes); the reference expansion, LZ10CompressionFormat::decompress and CompressionFormat::LZ10.decompress all return the input. \
         One case in four is preceded on the same thread by decompress() of a foreign literal-only, zero-padded stream of the same bytes (outcome ignored): the oracle is unchanged. Non-trivial: the emitted token list contains at least one back-reference, or the input is shorter than 3 bytes (boundary). Distinct = distinct case value."
            .into()
    }
    fn assumptions() -> Vec<String> {
        vec![
            "the reference LZ10 reader/expander in harness/src/refimpl/reflz.rs is the format definition (written from the GBATEK description, independent of mila and nintendo-lz)".into(),
            "random inputs are bounded by 300 KiB; the statement's bound of 16 MiB is approached only by constant runs (16 MiB-1 and 16 MiB-2 bytes)".into(),
        ]
    }
    fn both_builds() -> bool {
        true
    }
    fn random_cases(tier: Tier) -> u64 {
        tier.pick(4_000, 200_000)
    }
    fn strategy(tier: Tier) -> BoxedStrategy<LzInput> {
        lz_input(tier.pick(20_000, 300_000)).prop_map(LzInput::Spec).boxed()
    }
    fn enumerate(tier: Tier, shard: u64, nshards: u64, f: &mut dyn FnMut(LzInput) -> bool) {
        // the boundary inputs of C09 (exact match lengths, window-edge repeats, 16 MiB - 1 runs) apply to LZ10 as well
        for (i, c) in super::c09::boundary_inputs(tier).into_iter().enumerate() {
            if i as u64 % nshards == shard && !f(c) {
                return;
            }
        }
        enumerate_small(tier.pick(13, 18), tier.pick(8, 11), shard, nshards, f)
    }
    fn exhaustive_note(tier: Tier) -> Option<String> {
        Some(format!(
            "all byte strings over {{0,1}} of length 0..={} and over {{0,1,2}} of length 2..={} (every literal/match structure at small scale)",
            tier.pick(13, 18),
            tier.pick(8, 11)
        ))
    }
    fn shrink(c: &LzInput) -> Vec<LzInput> {
        shrink_input(c)
    }

    fn run(case: &LzInput, cx: &mut Cx) {
        let input = case.bytes();
        // one case in four is preceded, on this thread, by an unrelated call: decompressing a foreign (literal-only, padded) stream of the same bytes.
        // The compressor's output is a function of its input alone; the oracle below is the same with and without the earlier call.
        let prior_call = crate::engine::prop::fnv(&input) % 4 == 0 && input.len() <= 200_000;
        if prior_call {
            let foreign = super::prior::foreign_stream(&input, false);
            super::prior::quiet(|| LZ10CompressionFormat.decompress(&foreign).is_ok());
            cx.label("after-decompressing-a-foreign-stream-of-the-same-bytes");
        }
        let out = match cx.call(|| LZ10CompressionFormat.compress(&input)) {
            Some(Ok(o)) => o,
            Some(Err(e)) => {
                cx.fail("compress-ok", format!("compress returned Err({e}) for an input of {} bytes", input.len()));
                return;
            }
            None => return,
        };
        cx.mix_bytes(&out);
        // independent strict reader
        let parsed = match reflz::parse(Kind::Lz10, &out) {
            Ok(p) => p,
            Err(m) => {
                cx.fail("stream-well-formed", format!("reference LZ10 reader rejects the output: {m:?}; input len {}, output {:02x?}", input.len(), &out[..out.len().min(64)]));
                return;
            }
        };
        if !cx.check(parsed.declared == input.len(), "header-length", || {
            format!("header declares {} bytes, input has {}", parsed.declared, input.len())
        }) {
            return;
        }
        let mut refs = 0usize;
        let (mut max_len, mut max_disp, mut overlap) = (0u32, 0u32, false);
        for t in &parsed.tokens {
            if let Token::Ref { len, disp } = *t {
                refs += 1;
                max_len = max_len.max(len);
                max_disp = max_disp.max(disp);
                overlap |= len > disp;
                if !(3..=18).contains(&len) || !(1..=4096).contains(&disp) {
                    cx.fail("reference-range", format!("reference len {len} disp {disp} outside 3..=18 / 1..=4096"));
                    return;
                }
            }
        }
        let expanded = reflz::expand(&parsed.tokens);
        if !cx.check(expanded.as_deref() == Some(&input[..]), "reference-expansion", || {
            format!("independent expansion of the emitted tokens differs from the input (input len {})", input.len())
        }) {
            return;
        }
        // the library's own decompressor, both entry points
        match cx.call(|| LZ10CompressionFormat.decompress(&out)) {
            Some(Ok(d)) => {
                if !cx.check(d == input, "library-round-trip", || format!("LZ10 decompress(compress(x)) != x for input of {} bytes", input.len())) {
                    return;
                }
            }
            Some(Err(e)) => {
                cx.fail("library-round-trip", format!("LZ10 decompress rejected the library's own output: {e}"));
                return;
            }
            None => return,
        }
        match cx.call(|| CompressionFormat::LZ10(LZ10CompressionFormat).decompress(&out)) {
            Some(Ok(d)) => {
                cx.check(d == input, "format-dispatch-round-trip", || "CompressionFormat::LZ10 decompress(compress(x)) != x".into());
            }
            Some(Err(e)) => cx.fail("format-dispatch-round-trip", format!("CompressionFormat::LZ10 rejected the output: {e}")),
            None => return,
        }
        let via_enum = cx.call(|| CompressionFormat::LZ10(LZ10CompressionFormat).compress(&input));
        if let Some(Ok(o2)) = via_enum {
            cx.check(o2 == out, "format-dispatch-compress", || "CompressionFormat::LZ10.compress differs from LZ10CompressionFormat.compress".into());
        }

        // classification
        if refs > 0 || input.len() < 3 {
            cx.nontrivial();
        }
        cx.label_if(refs > 0, "has-reference");
        cx.label_if(max_len == 18, "max-length-18");
        cx.label_if(max_disp == 4096, "disp-4096");
        cx.label_if(max_disp >= 4000, "disp>=4000");
        cx.label_if(overlap, "overlapping-copy");
        cx.label_if(parsed.tokens.len() % 8 != 0, "ends-mid-group");
        cx.label_if(!parsed.tokens.is_empty() && parsed.tokens.len() % 8 == 0, "ends-on-group-boundary");
        cx.label_if(input.is_empty(), "empty-input");
        cx.label_if(input.len() > 4096, "longer-than-window");
    }
}
