//! C12 — layered filesystem: top layer wins, writes stay on top, read-after-write.
use crate::engine::prop::{Cx, Prop, Tier};
use crate::gen::archive::{content_strategy, ArchiveContent};
use crate::gen::fs::{decorate, compressed_suffix, expected_localized, is_lz10_game, layer_strategy, lookup, path_strategy, payload_strategy, populate, reference_expand, Entry, Node, Payload, Sandbox, Tree, GAMES, LANGS};
use crate::refimpl::refbin;
use crate::refimpl::reflz::{self, Kind};
use mila::{Endian, LayeredFilesystem, TextArchive, TextArchiveFormat};
use proptest::prelude::*;
use serde::{Deserialize, Serialize};

pub struct C12;

#[derive(Clone, Debug, Hash, Serialize, Deserialize)]
pub enum Op {
    Write { path: String, payload: Payload, localized: bool },
    Read { path: String, localized: bool },
    Exists { path: String, localized: bool },
    FileExists { path: String, localized: bool },
    DirectoryExists { path: String, localized: bool },
    Resolve { path: String, localized: bool },
    CreateDir { path: String, localized: bool },
    /// write_archive then read_archive of a small bin archive
    Archive { path: String, content: ArchiveContent, localized: bool },
    /// write_text_archive then read_text_archive
    Text { path: String, title: String, entries: Vec<(String, String)>, localized: bool },
    /// a pack file (FE9/10) or an arc file (3DS) written as bytes, then read through the typed helper
    Container { path: String, files: Vec<(String, Vec<u8>)>, localized: bool },
    /// read_text_archive(path) -> edit WITHOUT set_message (set_title and/or delete_message) -> write_text_archive(path) -> read again
    /// `back` > 0: the target (path and localisation choice) is that of the (back-1 mod i)-th earlier operation of the case
    TextEdit {
        path: String,
        new_title: Option<String>,
        delete: Option<u16>,
        localized: bool,
        #[serde(default)]
        back: u8,
    },
    /// a texture container (CTPK / BCH / CGFX / TPL by index) written as bytes, then read through the typed texture helper
    Textures { path: String, container: u8, count: u8, seed: u64, localized: bool },
    /// a typed reader (0 bin archive, 1 text archive, 2 pack, 3 arc, 4 CTPK, 5 BCH, 6 CGFX, 7 TPL) on whatever is at `path`: missing,
    /// garbage, or a file of another kind left there by an earlier operation
    /// (`back` as for TextEdit)
    TypedRead {
        path: String,
        kind: u8,
        localized: bool,
        #[serde(default)]
        back: u8,
    },
}
impl Op {
    fn target(&self) -> (&String, bool) {
        match self {
            Op::Write { path, localized, .. }
            | Op::Read { path, localized }
            | Op::Exists { path, localized }
            | Op::FileExists { path, localized }
            | Op::DirectoryExists { path, localized }
            | Op::Resolve { path, localized }
            | Op::CreateDir { path, localized }
            | Op::Archive { path, localized, .. }
            | Op::Text { path, localized, .. }
            | Op::Container { path, localized, .. }
            | Op::TextEdit { path, localized, .. }
            | Op::Textures { path, localized, .. }
            | Op::TypedRead { path, localized, .. } => (path, *localized),
        }
    }
}
/// the target of operation `i`: its own, or (back > 0) that of an earlier operation
fn effective<'a>(ops: &'a [Op], i: usize, back: u8) -> (&'a String, bool) {
    if back > 0 && i > 0 {
        ops[(back as usize - 1) % i].target()
    } else {
        ops[i].target()
    }
}

/// what a typed reader returned, in comparable form (ordered where the API's result is ordered, sorted where it is a hash map)
type Summary = Vec<(String, Vec<u8>)>;
fn tex_summary(mut v: Vec<mila::Texture>, sort: bool) -> Summary {
    if sort {
        v.sort_by(|a, b| a.filename.cmp(&b.filename));
    }
    v.into_iter().map(|t| (t.filename, [&(t.width as u64).to_le_bytes()[..], &(t.height as u64).to_le_bytes()[..], &t.pixel_data[..]].concat())).collect()
}
fn archive_summary(a: &mila::BinArchive) -> Result<Summary, String> {
    crate::gen::archive::observe(a).map(|o| vec![("archive".to_string(), format!("{o:?}").into_bytes())])
}
fn text_summary(t: &TextArchive) -> Summary {
    let mut v = vec![("#title".to_string(), t.get_title().as_bytes().to_vec())];
    v.extend(t.get_entries().iter().map(|(k, m)| (k.clone(), m.as_bytes().to_vec())));
    v
}
/// the game's codec applied directly to `bytes`
fn direct_typed(kind: u8, bytes: &[u8], be: bool) -> Result<Summary, String> {
    let endian = if be { Endian::Big } else { Endian::Little };
    let fmt = if be { TextArchiveFormat::ShiftJIS } else { TextArchiveFormat::Unicode };
    match kind % 8 {
        0 => mila::BinArchive::from_bytes(bytes, endian).map_err(|e| e.to_string()).and_then(|a| archive_summary(&a)),
        1 => TextArchive::from_bytes(bytes, fmt, endian).map_err(|e| e.to_string()).map(|t| text_summary(&t)),
        2 => mila::fe9_arc::parse(bytes).map_err(|e| e.to_string()).map(|m| m.into_iter().collect()),
        3 => mila::arc::from_bytes(bytes).map_err(|e| e.to_string()).map(|m| {
            let mut v: Summary = m.into_iter().collect();
            v.sort();
            v
        }),
        4 => mila::ctpk::read(bytes).map_err(|e| e.to_string()).map(|v| tex_summary(v, true)),
        5 => mila::bch::read(bytes).map_err(|e| e.to_string()).map(|v| tex_summary(v, true)),
        6 => mila::cgfx::read(bytes).map_err(|e| e.to_string()).map(|v| tex_summary(v, true)),
        _ => mila::tpl::Tpl::extract_textures(bytes).map_err(|e| e.to_string()).map(|v| tex_summary(v, false)),
    }
}
fn via_typed(fs: &LayeredFilesystem, kind: u8, path: &str, localized: bool) -> Result<Summary, String> {
    match kind % 8 {
        0 => fs.read_archive(path, localized).map_err(|e| e.to_string()).and_then(|a| archive_summary(&a)),
        1 => fs.read_text_archive(path, localized).map_err(|e| e.to_string()).map(|t| text_summary(&t)),
        2 => fs.read_fe9_arc(path, localized).map_err(|e| e.to_string()).map(|m| m.into_iter().collect()),
        3 => fs.read_arc(path, localized).map_err(|e| e.to_string()).map(|m| {
            let mut v: Summary = m.into_iter().collect();
            v.sort();
            v
        }),
        4 => fs.read_ctpk_textures(path, localized).map_err(|e| e.to_string()).map(|m| tex_summary(m.into_values().collect(), true)),
        5 => fs.read_bch_textures(path, localized).map_err(|e| e.to_string()).map(|m| tex_summary(m.into_values().collect(), true)),
        6 => fs.read_cgfx_textures(path, localized).map_err(|e| e.to_string()).map(|m| tex_summary(m.into_values().collect(), true)),
        _ => fs.read_tpl_textures(path, localized).map_err(|e| e.to_string()).map(|v| tex_summary(v, false)),
    }
}

#[derive(Clone, Debug, Hash, Serialize, Deserialize)]
pub struct Case {
    pub game: u8,
    pub language: u8,
    /// initial contents, lowest priority first (1..=4 layers)
    pub layers: Vec<Vec<Entry>>,
    pub ops: Vec<Op>,
    /// how the layer directories are spelled when handed to LayeredFilesystem::new (0 = canonical)
    #[serde(default)]
    pub root_style: u8,
    /// k > 0 (and >= 2 layers): the top layer is the SAME directory as layer (k-1) mod top, i.e. the list handed to
    /// LayeredFilesystem::new names one directory twice, e.g. [A, B, A]
    #[serde(default)]
    pub alias: u8,
}

/// top-down search over the snapshots: index of the top-most layer in which `path` satisfies `pred`
fn top_layer<'a>(snaps: &'a [Tree], path: &str, pred: impl Fn(&Node) -> bool) -> Option<(usize, &'a Node)> {
    for (i, t) in snaps.iter().enumerate().rev() {
        if let Some(n) = lookup(t, path) {
            if pred(n) {
                return Some((i, n));
            }
        }
    }
    None
}

/// would a write of `path` into a layer with this tree hit a file/dir conflict?
fn write_conflict(t: &Tree, path: &str) -> bool {
    let key = path.trim_end_matches('/');
    if path.ends_with('/') || matches!(t.get(key), Some(Node::Dir)) {
        return true;
    }
    let comps: Vec<&str> = key.split('/').collect();
    for n in 1..comps.len() {
        if matches!(t.get(&comps[..n].join("/")), Some(Node::File(_))) {
            return true;
        }
    }
    false
}

/// new parent directories that a write/create_dir of `path` creates in a layer
fn parents(path: &str) -> Vec<String> {
    let comps: Vec<&str> = path.trim_end_matches('/').split('/').collect();
    (1..comps.len()).map(|n| comps[..n].join("/")).collect()
}

struct World {
    sb: Sandbox,
    fs: LayeredFilesystem,
    game: mila::Game,
    lang: mila::Language,
    snaps: Vec<Tree>,
}

impl World {
    fn actual(&self, path: &str, localized: bool) -> Option<String> {
        if localized {
            expected_localized(self.game, self.lang, path)
        } else {
            Some(path.to_string())
        }
    }
    /// re-snapshots and checks that nothing but `allowed` (paths in the top layer) changed
    fn settle(&mut self, cx: &mut Cx, name: &str, allowed: &[String]) -> bool {
        let after = self.sb.snapshots();
        let top = after.len() - 1;
        for i in 0..top {
            if self.sb.layers[i] == self.sb.layers[top] {
                continue; // the same directory listed twice: it IS the top layer
            }
            if !cx.check(after[i] == self.snaps[i], "lower-layers-never-change", || {
                let diff: Vec<&String> = after[i].keys().filter(|k| after[i].get(*k) != self.snaps[i].get(*k)).chain(self.snaps[i].keys().filter(|k| !after[i].contains_key(*k))).collect();
                format!("{name}: layer {i} (below the top layer {top}) changed at {diff:?}")
            }) {
                return false;
            }
        }
        let changed: Vec<String> = after[top]
            .keys()
            .filter(|k| after[top].get(*k) != self.snaps[top].get(*k))
            .chain(self.snaps[top].keys().filter(|k| !after[top].contains_key(*k)))
            .cloned()
            .collect();
        for c in &changed {
            if !cx.check(allowed.contains(c), "top-layer-changes-only-at-the-target", || format!("{name}: top layer changed at {c:?}, allowed {allowed:?}")) {
                return false;
            }
        }
        self.snaps = after;
        true
    }
}

fn expected_read(w: &World, path: &str, localized: bool) -> Option<Result<Vec<u8>, ()>> {
    // Some(Ok(bytes)) must be returned, Some(Err) must fail, None no claim
    let actual = match w.actual(path, localized) {
        Some(a) => a,
        None => return Some(Err(())),
    };
    match top_layer(&w.snaps, &actual, |n| matches!(n, Node::File(_))) {
        None => Some(Err(())),
        Some((_, Node::File(stored))) => {
            if compressed_suffix(w.game, path) {
                reference_expand(w.game, stored)
            } else {
                Some(Ok(stored.clone()))
            }
        }
        _ => None,
    }
}

fn do_write(cx: &mut Cx, w: &mut World, name: &str, path: &str, bytes: &[u8], localized: bool, res: Result<(), String>) -> bool {
    let top = w.snaps.len() - 1;
    let actual = match w.actual(path, localized) {
        Some(a) => a,
        None => {
            if !cx.check(res.is_err(), "unlocalizable-path-is-an-error", || format!("{name}: write succeeded for an unsupported game/language pair")) {
                return false;
            }
            return w.settle(cx, name, &[]);
        }
    };
    let conflict = write_conflict(&w.snaps[top], &actual);
    let key = actual.trim_end_matches('/').to_string();
    let mut allowed = parents(&actual);
    allowed.push(key.clone());
    match res {
        Err(e) => {
            if !cx.check(conflict, "write-accepted-without-conflict", || format!("{name}: write failed although the top layer has no file/directory conflict on {actual:?}: {e}")) {
                return false;
            }
            cx.label("write-rejected(conflict)");
            w.settle(cx, name, &allowed)
        }
        Ok(()) => {
            if !w.settle(cx, name, &allowed) {
                return false;
            }
            let stored = match w.snaps[top].get(&key) {
                Some(Node::File(b)) => b.clone(),
                other => {
                    cx.fail("write-lands-in-top-layer", format!("{name}: after a successful write the top layer has {:?} at {key:?}", other.map(|n| matches!(n, Node::Dir))));
                    return false;
                }
            };
            let exempt = bytes.is_empty() && !is_lz10_game(w.game) && compressed_suffix(w.game, path);
            if compressed_suffix(w.game, path) {
                cx.label("compressed-suffix-write");
                if !exempt {
                    // right container type for the game, and a valid stream expanding to the payload
                    let parsed = if is_lz10_game(w.game) {
                        reflz::parse(Kind::Lz10, &stored)
                    } else if stored.len() >= 4 && stored[0] == 0x13 {
                        reflz::parse(Kind::Lz11, &stored[4..])
                    } else {
                        Err(reflz::Malformed::BadType(stored.first().copied().unwrap_or(0)))
                    };
                    let ok = parsed.as_ref().ok().and_then(|p| reflz::expand(&p.tokens)).map(|d| d == bytes).unwrap_or(false);
                    if !cx.check(ok, "stored-file-is-a-valid-compressed-stream", || format!("{name}: stored file ({} bytes, starts {:02x?}) is not a valid {} stream of the {}-byte payload: {:?}", stored.len(), &stored[..stored.len().min(12)], if is_lz10_game(w.game) { "LZ10" } else { "0x13-wrapped LZ11" }, bytes.len(), parsed.err())) {
                        return false;
                    }
                }
            } else if !cx.check(stored == bytes, "stored-bytes-equal-payload", || format!("{name}: stored {} bytes, payload {} bytes", stored.len(), bytes.len())) {
                return false;
            }
            // read-after-write with the same localisation choice
            if !exempt {
                match cx.call(|| w.fs.read(path, localized)) {
                    Some(Ok(b)) => {
                        if !cx.check(b == bytes, "read-after-write", || format!("{name}: read after write returned {} bytes, wrote {} (first difference {:?})", b.len(), bytes.len(), b.iter().zip(bytes.iter()).position(|(x, y)| x != y))) {
                            return false;
                        }
                    }
                    Some(Err(e)) => {
                        cx.fail("read-after-write", format!("{name}: read after a successful write failed: {e}"));
                        return false;
                    }
                    None => return false,
                }
            } else {
                cx.label("exempt:empty-payload-lz13");
                let _ = cx.call(|| w.fs.read(path, localized));
            }
            true
        }
    }
}

fn op_strategy() -> BoxedStrategy<Op> {
    let p = path_strategy;
    let loc = || prop_oneof![2 => Just(false), 1 => Just(true)];
    prop_oneof![
        6 => (p(), payload_strategy(), loc()).prop_map(|(path, payload, localized)| Op::Write { path, payload, localized }),
        5 => (p(), loc()).prop_map(|(path, localized)| Op::Read { path, localized }),
        1 => (p(), loc()).prop_map(|(path, localized)| Op::Exists { path, localized }),
        1 => (p(), loc()).prop_map(|(path, localized)| Op::FileExists { path, localized }),
        1 => (p(), loc()).prop_map(|(path, localized)| Op::DirectoryExists { path, localized }),
        1 => (p(), loc()).prop_map(|(path, localized)| Op::Resolve { path, localized }),
        1 => (p(), loc()).prop_map(|(path, localized)| Op::CreateDir { path, localized }),
        1 => (p(), content_strategy(24, 4, 3, false), loc()).prop_map(|(path, content, localized)| Op::Archive { path, content, localized }),
        1 => (p(), "[a-z]{0,6}", proptest::collection::vec(("[A-Z]{1,5}", "[a-z ]{0,9}"), 0..4), loc()).prop_map(|(path, title, entries, localized)| Op::Text { path, title, entries, localized }),
        1 => (p(), proptest::collection::vec(("[a-z]{1,6}", proptest::collection::vec(any::<u8>(), 0..40)), 0..4), loc()).prop_map(|(path, files, localized)| Op::Container { path, files, localized }),
        1 => (p(), proptest::option::of("[a-z]{0,5}"), proptest::option::of(any::<u16>()), loc()).prop_map(|(path, new_title, delete, localized)| Op::TextEdit { path, new_title, delete, localized, back: 0 }),
        2 => (p(), proptest::option::of("[a-z]{0,5}"), proptest::option::of(any::<u16>()), 1u8..=12).prop_map(|(path, new_title, delete, back)| Op::TextEdit { path, new_title, delete, localized: false, back }),
        1 => (p(), 0u8..4, 0u8..3, any::<u64>(), loc()).prop_map(|(path, container, count, seed, localized)| Op::Textures { path, container, count, seed, localized }),
        1 => (p(), 0u8..8, loc()).prop_map(|(path, kind, localized)| Op::TypedRead { path, kind, localized, back: 0 }),
        4 => (p(), 0u8..8, 1u8..=12).prop_map(|(path, kind, back)| Op::TypedRead { path, kind, localized: false, back }),
    ]
    .boxed()
}

impl Prop for C12 {
    type Case = Case;
    const ID: &'static str = "C12";
    fn rule() -> String {
        "Stateful on real directories (tmpfs sandbox, one per case): 1..=4 layers pre-populated from a tree generator over a small pool of plain components (so the same relative path occurs in several layers, as a file in one and a directory \
         in another; files with the game's compressed suffix hold reference-encoded streams, occasionally garbage), game in {FE9, FE10, FE13, FE14, FE15} x 8 languages, and a list of operations: write (payloads empty, 1..=3 bytes, compressible, incompressible, up to 8 KiB; \
         localized or not), read, exists, file_exists, directory_exists, resolve, create_dir, write_archive+read_archive, write_text_archive+read_text_archive (also load -> set_title/delete_message -> save -> load, i.e. edits that never raise the dirty flag), a pack/arc container written as bytes and read through read_fe9_arc/read_arc, CTPK/BCH/CGFX/TPL containers read through the typed texture readers, and every typed reader applied to an arbitrary path (missing, garbage, or a file of another kind left by an earlier operation: missing => error; otherwise the same outcome as the game's codec applied to the bytes read() must return); payloads may themselves be complete compressed streams; the layer directories are handed to LayeredFilesystem::new in canonical or equivalent non-canonical spellings (trailing slash, '/.', 'X/../X'), in 1 case of 13 with one directory named twice (as the top layer and as a lower one, e.g. [A, B, A]); later operations of a history go through clones of the filesystem object. \
         Oracle: every layer directory is walked (std::fs) before and after each call. read = bytes of the top-most layer holding the (localised) path as a regular file, expanded by the reference LZ decoder when the requested name has the compressed suffix, else an error; \
         write Ok => all lower layers byte-identical, the top layer changes only at the target and its new parent directories, the stored bytes equal the payload or are a stream the reference reader accepts (LZ10 for FE9/10, 0x13-wrapped LZ11 for FE13-15) expanding to it, and an immediate read returns the payload; \
         write must succeed when the top layer has no file/directory conflict on the path; existence queries and resolve equal the same top-down search; typed helpers equal the byte-level call composed with the game's codec (checked by decoding the stored file with the reference bin reader: endianness, text encoding, compression). \
         Non-trivial: >= 2 layers and a write that shadows a lower-layer file followed by a read of it, or a compressed-suffix write. Distinct = distinct case value."
            .into()
    }
    fn assumptions() -> Vec<String> {
        vec![
            "the directory walk (std::fs::read_dir) is the independent observer; reflz/refbin decode stored files".into(),
            "components are plain (interpretation 17); FE13-15 + empty payload + compressed suffix is exempt from read-after-write (interpretation 16)".into(),
            "the localisation table of C14 gives the on-disk location of localized operations".into(),
        ]
    }
    fn random_cases(tier: Tier) -> u64 {
        tier.pick(30_000, 600_000)
    }
    fn strategy(tier: Tier) -> BoxedStrategy<Case> {
        let max_ops = tier.pick(15usize, 40);
        (0u8..5, 0u8..8, proptest::collection::vec(layer_strategy(), 1..=4), proptest::collection::vec(op_strategy(), 1..=max_ops), prop_oneof![3 => Just(0u8), 1 => any::<u8>()], prop_oneof![12 => Just(0u8), 1 => 1u8..=3])
            .prop_map(|(game, language, layers, ops, root_style, alias)| Case { game, language, layers, ops, root_style, alias })
            .boxed()
    }
    fn enumerate(_tier: Tier, shard: u64, nshards: u64, f: &mut dyn FnMut(Case) -> bool) {
        // every game x language: shadowing write + read, compressed write + read, directory shadowing a file
        let mut idx = 0u64;
        for game in 0u8..5 {
            for language in 0u8..8 {
                for variant in 0..5 {
                    let mine = idx % nshards == shard;
                    idx += 1;
                    if !mine {
                        continue;
                    }
                    let comp = if game < 2 { "m/file.cmp" } else { "m/x.bin.lz" };
                    let lower = vec![
                        Entry { path: "m/GameData.bin".into(), file: Some(Payload::Raw(vec![1, 2, 3])), corrupt: false },
                        Entry { path: comp.into(), file: Some(Payload::Repeat(7, 50)), corrupt: false },
                        Entry { path: "data/readme".into(), file: Some(Payload::Raw(vec![9])), corrupt: false },
                    ];
                    let mut lower = lower;
                    if variant >= 3 {
                        if let Some(lp) = crate::gen::fs::expected_localized(GAMES[game as usize], LANGS[language as usize], "m/GameData.bin") {
                            if lp != "m/GameData.bin" {
                                lower.push(Entry { path: lp, file: Some(Payload::Raw(vec![3, 2, 1])), corrupt: false });
                            }
                        }
                    }
                    let ops = match variant {
                        0 => vec![
                            Op::Read { path: "m/GameData.bin".into(), localized: false },
                            Op::Write { path: "m/GameData.bin".into(), payload: Payload::Raw(vec![4, 5]), localized: false },
                            Op::Read { path: "m/GameData.bin".into(), localized: false },
                            Op::Write { path: "m/GameData.bin".into(), payload: Payload::Raw(vec![1, 2, 3]), localized: true },
                            Op::Read { path: "m/GameData.bin".into(), localized: true },
                            Op::Resolve { path: "m/GameData.bin".into(), localized: false },
                        ],
                        1 => vec![
                            Op::Read { path: comp.into(), localized: false },
                            Op::Write { path: comp.into(), payload: Payload::Repeat(3, 300), localized: false },
                            Op::Write { path: comp.into(), payload: Payload::Repeat(7, 50), localized: true },
                            Op::Read { path: comp.into(), localized: true },
                            Op::Write { path: comp.into(), payload: Payload::Raw(vec![]), localized: false },
                        ],
                        // one location under its two spellings: P with localisation and localize(P) without (the same string where the pair is
                        // unsupported or the mapping is the identity); reads through one spelling must see writes through the other
                        3 | 4 => {
                            let p = "m/GameData.bin".to_string();
                            let lp = crate::gen::fs::expected_localized(GAMES[game as usize], LANGS[language as usize], &p).unwrap_or_else(|| p.clone());
                            if variant == 3 {
                                vec![
                                    Op::Read { path: lp.clone(), localized: false },
                                    Op::Write { path: p.clone(), payload: Payload::Raw(vec![7, 7, 7, 7]), localized: true },
                                    Op::Read { path: lp.clone(), localized: false },
                                    Op::Read { path: p.clone(), localized: true },
                                    Op::Resolve { path: lp.clone(), localized: false },
                                    Op::FileExists { path: p.clone(), localized: true },
                                ]
                            } else {
                                vec![
                                    Op::Read { path: p.clone(), localized: true },
                                    Op::Exists { path: p.clone(), localized: true },
                                    Op::Write { path: lp.clone(), payload: Payload::Raw(vec![8, 8]), localized: false },
                                    Op::Read { path: p.clone(), localized: true },
                                    Op::Read { path: lp.clone(), localized: false },
                                    Op::Write { path: p.clone(), payload: Payload::Raw(vec![9]), localized: true },
                                    Op::Read { path: lp.clone(), localized: false },
                                ]
                            }
                        }
                        _ => vec![
                            Op::CreateDir { path: "data/readme".into(), localized: false },
                            Op::Read { path: "data/readme".into(), localized: false },
                            Op::FileExists { path: "data/readme".into(), localized: false },
                            Op::DirectoryExists { path: "data/readme".into(), localized: false },
                            Op::Write { path: "data/readme".into(), payload: Payload::Raw(vec![1]), localized: false },
                            Op::Write { path: "data/readme/inner.bin".into(), payload: Payload::Raw(vec![1]), localized: false },
                        ],
                    };
                    if !f(Case { game, language, layers: vec![lower, vec![], vec![]], ops, root_style: variant as u8 + language, alias: if language % 4 == 3 { 1 } else { 0 } }) {
                        return;
                    }
                }
            }
        }
    }
    fn exhaustive_note(_tier: Tier) -> Option<String> {
        Some("all 40 game x language configurations x 5 fixed scenarios on a 3-layer filesystem (one location read and written alternately under its two spellings - P with localisation, localize(P) without -, shadowing write + reads, compressed-suffix writes incl. a payload identical to the lower layer's and the empty payload, a directory shadowing a lower-layer file)".into())
    }
    fn shrink(c: &Case) -> Vec<Case> {
        let mut v = Vec::new();
        for i in 0..c.ops.len() {
            if c.ops.len() > 1 {
                let mut ops = c.ops.clone();
                ops.remove(i);
                v.push(Case { ops, ..c.clone() });
            }
        }
        v
    }

    fn run(case: &Case, cx: &mut Cx) {
        let game = GAMES[case.game as usize % 5];
        let lang = LANGS[case.language as usize % 8];
        let nlayers = case.layers.len().clamp(1, 4);
        let mut sb = Sandbox::new(nlayers);
        if case.alias > 0 && nlayers >= 2 {
            let top = nlayers - 1;
            sb.layers[top] = sb.layers[(case.alias as usize - 1) % top].clone();
            cx.label(if nlayers >= 3 && (case.alias as usize - 1) % top != top - 1 { "one-directory-as-top-and-lower-layer-with-another-between" } else { "one-directory-as-top-and-lower-layer" });
        }
        populate(&sb, game, &case.layers[..nlayers]);
        let given: Vec<String> = sb.layers.iter().enumerate().map(|(i, l)| decorate(l, case.root_style.wrapping_add(i as u8 * (case.root_style % 3)))).collect();
        let fs = match cx.call(|| LayeredFilesystem::new(given.clone(), lang, game)) {
            Some(Ok(f)) => f,
            Some(Err(e)) => {
                cx.fail("filesystem-new", format!("LayeredFilesystem::new({given:?}): {e}"));
                return;
            }
            None => return,
        };
        cx.label_if(case.root_style % 5 != 0, "non-canonical-layer-root-spelling");
        let snaps = sb.snapshots();
        let mut w = World { sb, fs, game, lang, snaps };
        let endian_be = is_lz10_game(game);
        // the codec configured for the game, as the filesystem itself reports it
        {
            let e_ok = matches!((w.fs.endian(), endian_be), (mila::Endian::Big, true) | (mila::Endian::Little, false));
            let t_ok = matches!((w.fs.text_archive_format(), endian_be), (mila::TextArchiveFormat::ShiftJIS, true) | (mila::TextArchiveFormat::Unicode, false));
            let l_ok = format!("{:?}", w.fs.language()) == format!("{lang:?}");
            if !cx.check(e_ok && t_ok && l_ok, "configured-codec-accessors", || {
                format!("{game:?}/{lang:?}: endian() = {:?}, text_archive_format() = {:?}, language() = {:?}", w.fs.endian(), w.fs.text_archive_format(), w.fs.language())
            }) {
                return;
            }
        }
        let mut shadow_written: Vec<String> = Vec::new();
        for (i, op) in case.ops.iter().enumerate() {
            let name = format!("step {i} {game:?}/{lang:?} {}", {
                let s = format!("{op:?}");
                if s.len() > 160 {
                    format!("{}…", &s[..s.char_indices().take_while(|(i, _)| *i < 160).last().map(|(i, c)| i + c.len_utf8()).unwrap_or(0)])
                } else {
                    s
                }
            });
            let top = w.snaps.len() - 1;
            if (case.root_style as usize + i * 3) % 7 == 0 {
                // a clone is the same filesystem (same layers, game and language): the rest of the history goes through it
                let c = match cx.call(|| w.fs.clone()) {
                    Some(c) => c,
                    None => return,
                };
                w.fs = c;
                cx.label("continued-through-a-clone");
            }
            match op {
                Op::Write { path, payload, localized } => {
                    let bytes = payload.bytes();
                    let res = match cx.call(|| w.fs.write(path, &bytes, *localized).map_err(|e| e.to_string())) {
                        Some(r) => r,
                        None => return,
                    };
                    if let Some(actual) = w.actual(path, *localized) {
                        if nlayers >= 2 && w.snaps[..top].iter().any(|t| matches!(lookup(t, &actual), Some(Node::File(_)))) {
                            shadow_written.push(actual.clone());
                            cx.label("write-shadows-lower-layer-file");
                        }
                    }
                    if compressed_suffix(game, path) && res.is_ok() && nlayers >= 2 {
                        cx.nontrivial();
                    }
                    if !do_write(cx, &mut w, &name, path, &bytes, *localized, res) {
                        return;
                    }
                }
                Op::Read { path, localized } => {
                    let res = match cx.call(|| w.fs.read(path, *localized)) {
                        Some(r) => r,
                        None => return,
                    };
                    match expected_read(&w, path, *localized) {
                        Some(Ok(want)) => match res {
                            Ok(b) => {
                                if !cx.check(b == want, "read-returns-top-most-layer", || format!("{name}: read returned {} bytes, the top-most layer holding the file has {} (after expansion); first difference {:?}", b.len(), want.len(), b.iter().zip(want.iter()).position(|(x, y)| x != y))) {
                                    return;
                                }
                            }
                            Err(e) => {
                                cx.fail("read-returns-top-most-layer", format!("{name}: read failed although a layer holds the file: {e}"));
                                return;
                            }
                        },
                        Some(Err(())) => {
                            if !cx.check(res.is_err(), "read-missing-is-an-error", || format!("{name}: read succeeded although no layer holds a readable file at that path")) {
                                return;
                            }
                        }
                        None => {}
                    }
                    if let Some(actual) = w.actual(path, *localized) {
                        if shadow_written.contains(&actual) {
                            cx.nontrivial();
                            cx.label("read-of-shadowed-file");
                        }
                        cx.label_if(top_layer(&w.snaps, &actual, |n| matches!(n, Node::Dir)).map(|(i, _)| i) > top_layer(&w.snaps, &actual, |n| matches!(n, Node::File(_))).map(|(i, _)| i) && top_layer(&w.snaps, &actual, |n| matches!(n, Node::File(_))).is_some(), "read:directory-above-file");
                    }
                    if !w.settle(cx, &name, &[]) {
                        return;
                    }
                }
                Op::Exists { path, localized } | Op::FileExists { path, localized } | Op::DirectoryExists { path, localized } => {
                    let res = match cx.call(|| match op {
                        Op::Exists { .. } => w.fs.exists(path, *localized),
                        Op::FileExists { .. } => w.fs.file_exists(path, *localized),
                        _ => w.fs.directory_exists(path, *localized),
                    }) {
                        Some(r) => r,
                        None => return,
                    };
                    match w.actual(path, *localized) {
                        None => {
                            if !cx.check(res.is_err(), "unlocalizable-path-is-an-error", || format!("{name}: returned {res:?} for an unsupported game/language pair")) {
                                return;
                            }
                        }
                        Some(actual) => {
                            let want = match op {
                                Op::Exists { .. } => top_layer(&w.snaps, &actual, |_| true).is_some(),
                                Op::FileExists { .. } => top_layer(&w.snaps, &actual, |n| matches!(n, Node::File(_))).is_some(),
                                _ => top_layer(&w.snaps, &actual, |n| matches!(n, Node::Dir)).is_some(),
                            };
                            if !cx.check(matches!(res, Ok(b) if b == want), "existence-queries-search-all-layers", || format!("{name}: returned {res:?}, the layers say {want} for {actual:?}")) {
                                return;
                            }
                        }
                    }
                }
                Op::Resolve { path, localized } => {
                    let res = match cx.call(|| w.fs.resolve(path, *localized)) {
                        Some(r) => r,
                        None => return,
                    };
                    let want = w.actual(path, *localized).and_then(|actual| top_layer(&w.snaps, &actual, |_| true).map(|(i, _)| std::path::Path::new(&w.sb.layers[i]).join(&actual)));
                    // the same file, however the path is spelled
                    let canon = |p: &Option<std::path::PathBuf>| p.as_ref().map(|p| std::fs::canonicalize(p).unwrap_or_else(|_| p.clone()));
                    if !cx.check(canon(&res) == canon(&want), "resolve-searches-top-down", || format!("{name}: resolve returned {res:?}, expected {want:?}")) {
                        return;
                    }
                }
                Op::TypedRead { kind, back, .. } => {
                    let (path, localized) = effective(&case.ops, i, *back);
                    let localized = &localized;
                    // "exactly that byte-level read composed with the codec configured for the game"
                    match expected_read(&w, path, *localized) {
                        Some(Err(())) => {
                            let via = match cx.call(|| via_typed(&w.fs, *kind, path, *localized)) {
                                Some(v) => v,
                                None => return,
                            };
                            if !cx.check(via.is_err(), "typed-read-of-a-missing-file-is-an-error", || format!("{name}: no layer holds the file, the typed reader returned {} item(s)", via.as_ref().map(|v| v.len()).unwrap_or(0))) {
                                return;
                            }
                            cx.label("typed-read:missing-file");
                        }
                        Some(Ok(bytes)) => match crate::engine::panics::catch(|| direct_typed(*kind, &bytes, endian_be)) {
                            Err(_) => cx.label("typed-read:codec-panics-on-this-file(no-claim)"),
                            Ok(direct) => {
                                let via = match cx.call(|| via_typed(&w.fs, *kind, path, *localized)) {
                                    Some(v) => v,
                                    None => return,
                                };
                                // duplicate texture names collapse in the map-returning helpers: only the names are compared then
                                let names = |s: &Summary| {
                                    let mut n: Vec<String> = s.iter().map(|(k, _)| k.clone()).collect();
                                    n.sort();
                                    n.dedup();
                                    n
                                };
                                let dup = matches!(kind % 8, 4..=6) && direct.as_ref().map(|d| names(d).len() != d.len()).unwrap_or(false);
                                let same = match (&direct, &via) {
                                    (Ok(d), Ok(v)) => {
                                        if dup {
                                            names(d) == names(v)
                                        } else {
                                            d == v
                                        }
                                    }
                                    (Err(_), Err(_)) => true,
                                    _ => false,
                                };
                                if !cx.check(same, "typed-helper-equals-read-plus-codec", || {
                                    format!("{name}: the typed reader gives {:?}, the game's codec applied to the {} bytes that read() returns gives {:?}", via.as_ref().map(|v| v.iter().map(|(k, b)| (k.clone(), b.len())).collect::<Vec<_>>()), bytes.len(), direct.as_ref().map(|v| v.iter().map(|(k, b)| (k.clone(), b.len())).collect::<Vec<_>>()))
                                }) {
                                    return;
                                }
                                cx.label(if direct.is_ok() { "typed-read:file-the-codec-accepts" } else { "typed-read:file-the-codec-rejects" });
                            }
                        },
                        None => {
                            let _ = crate::engine::panics::catch(|| via_typed(&w.fs, *kind, path, *localized));
                        }
                    }
                    if !w.settle(cx, &name, &[]) {
                        return;
                    }
                }
                Op::CreateDir { path, localized } => {
                    let res = match cx.call(|| w.fs.create_dir(path, *localized).map_err(|e| e.to_string())) {
                        Some(r) => r,
                        None => return,
                    };
                    match w.actual(path, *localized) {
                        None => {
                            if !cx.check(res.is_err(), "unlocalizable-path-is-an-error", || format!("{name}: create_dir succeeded for an unsupported pair")) {
                                return;
                            }
                            if !w.settle(cx, &name, &[]) {
                                return;
                            }
                        }
                        Some(actual) => {
                            let mut allowed = parents(&actual);
                            allowed.push(actual.trim_end_matches('/').to_string());
                            if !w.settle(cx, &name, &allowed) {
                                return;
                            }
                            if res.is_ok() && !cx.check(matches!(lookup(&w.snaps[top], &actual), Some(Node::Dir)), "create-dir-in-top-layer", || format!("{name}: no directory {actual:?} in the top layer after create_dir")) {
                                return;
                            }
                        }
                    }
                }
                Op::Archive { path, content, localized } => {
                    let mut content = content.clone();
                    content.big_endian = endian_be;
                    let arch = match crate::gen::archive::build(&content, 0, false) {
                        Ok(a) => a,
                        Err(_) => continue,
                    };
                    let image = match arch.serialize() {
                        Ok(b) => b,
                        Err(_) => continue,
                    };
                    let res = match cx.call(|| w.fs.write_archive(path, &arch, *localized).map_err(|e| e.to_string())) {
                        Some(r) => r,
                        None => return,
                    };
                    let ok = res.is_ok();
                    // write_archive = write(serialize()): same effects as the byte-level write of the image
                    if !do_write(cx, &mut w, &name, path, &image, *localized, res) {
                        return;
                    }
                    if ok {
                        cx.label("typed:archive");
                        // the stored image is in the game's endianness (independent reader)
                        if !compressed_suffix(game, path) {
                            if let Some(actual) = w.actual(path, *localized) {
                                if let Some(Node::File(stored)) = lookup(&w.snaps[top], &actual) {
                                    let img = refbin::parse(stored, endian_be);
                                    if !cx.check(matches!(&img, Ok(i) if i.defects.is_empty() && i.data.len() == content.len()), "typed-helper-uses-the-game-endianness", || format!("{name}: the stored archive does not read as a {}-endian image: {:?}", if endian_be { "big" } else { "little" }, img.map(|i| i.defects))) {
                                        return;
                                    }
                                }
                            }
                        }
                        match cx.call(|| w.fs.read_archive(path, *localized)) {
                            Some(Ok(a)) => {
                                if !super::c01::compare_observed(cx, &format!("{name}: read_archive after write_archive"), &a, &content, 0) {
                                    return;
                                }
                            }
                            Some(Err(e)) => {
                                cx.fail("typed-helper-round-trip", format!("{name}: read_archive failed after write_archive: {e}"));
                                return;
                            }
                            None => return,
                        }
                    }
                }
                Op::Text { path, title, entries, localized } => {
                    let (format, endian) = if endian_be { (TextArchiveFormat::ShiftJIS, Endian::Big) } else { (TextArchiveFormat::Unicode, Endian::Little) };
                    let mut t = TextArchive::new(format, endian);
                    t.set_title(title.clone());
                    let mut model: Vec<(String, String)> = Vec::new();
                    for (k, m) in entries {
                        t.set_message(k, m);
                        match model.iter_mut().find(|(k2, _)| k2 == k) {
                            Some(e) => e.1 = m.clone(),
                            None => model.push((k.clone(), m.clone())),
                        }
                    }
                    let image = match t.serialize() {
                        Ok(b) => b,
                        Err(_) => continue,
                    };
                    let res = match cx.call(|| w.fs.write_text_archive(path, &t, *localized).map_err(|e| e.to_string())) {
                        Some(r) => r,
                        None => return,
                    };
                    let ok = res.is_ok();
                    if !do_write(cx, &mut w, &name, path, &image, *localized, res) {
                        return;
                    }
                    if ok {
                        cx.label("typed:text-archive");
                        match cx.call(|| w.fs.read_text_archive(path, *localized)) {
                            Some(Ok(r)) => {
                                let got: Vec<(String, String)> = r.get_entries().iter().map(|(a, b)| (a.clone(), b.clone())).collect();
                                let title_ok = endian_be || r.get_title() == title;
                                if !cx.check(got == model && title_ok, "typed-helper-round-trip", || format!("{name}: read_text_archive returned title {:?} entries {got:?}, wrote {title:?} {model:?}", r.get_title())) {
                                    return;
                                }
                            }
                            Some(Err(e)) => {
                                cx.fail("typed-helper-round-trip", format!("{name}: read_text_archive failed after write_text_archive: {e}"));
                                return;
                            }
                            None => return,
                        }
                    }
                }
                Op::Container { path, files, localized } => {
                    let mut distinct: Vec<(String, Vec<u8>)> = Vec::new();
                    for (n, c) in files {
                        if !distinct.iter().any(|(m, _)| m == n) {
                            distinct.push((n.clone(), c.clone()));
                        }
                    }
                    let image = if endian_be {
                        let mut m = indexmap::IndexMap::new();
                        for (n, c) in &distinct {
                            m.insert(n.clone(), c.clone());
                        }
                        match mila::fe9_arc::serialize(&m) {
                            Ok(b) => b,
                            Err(_) => continue,
                        }
                    } else {
                        let c = super::c16::Case { files: distinct.iter().enumerate().map(|(i, (n, c))| (n.clone(), c.len() as u32, i as u64 + 1)).collect(), header: distinct.len() % 2 == 0, layout_seed: distinct.len() as u64, alt_image: false, negative: super::c16::Negative::None, extras: 0 };
                        let b = super::c16::build(&c);
                        distinct = b.files.clone();
                        refbin::write_canonical(&b.content, None)
                    };
                    let res = match cx.call(|| w.fs.write(path, &image, *localized).map_err(|e| e.to_string())) {
                        Some(r) => r,
                        None => return,
                    };
                    let ok = res.is_ok();
                    if !do_write(cx, &mut w, &name, path, &image, *localized, res) {
                        return;
                    }
                    if ok {
                        cx.label("typed:container");
                        if endian_be {
                            match cx.call(|| w.fs.read_fe9_arc(path, *localized)) {
                                Some(Ok(m)) => {
                                    let got: Vec<(String, Vec<u8>)> = m.into_iter().collect();
                                    if !cx.check(got == distinct, "typed-helper-round-trip", || format!("{name}: read_fe9_arc returned {} files, packed {}", got.len(), distinct.len())) {
                                        return;
                                    }
                                }
                                Some(Err(e)) => {
                                    cx.fail("typed-helper-round-trip", format!("{name}: read_fe9_arc failed: {e}"));
                                    return;
                                }
                                None => return,
                            }
                        } else {
                            match cx.call(|| w.fs.read_arc(path, *localized)) {
                                Some(Ok(m)) => {
                                    let same = m.len() == distinct.len() && distinct.iter().all(|(n, c)| m.get(n) == Some(c));
                                    if !cx.check(same, "typed-helper-round-trip", || format!("{name}: read_arc returned {} files, packed {}", m.len(), distinct.len())) {
                                        return;
                                    }
                                }
                                Some(Err(e)) => {
                                    cx.fail("typed-helper-round-trip", format!("{name}: read_arc failed: {e}"));
                                    return;
                                }
                                None => return,
                            }
                        }
                    }
                }
                Op::TextEdit { new_title, delete, back, .. } => {
                    let (path, localized) = effective(&case.ops, i, *back);
                    let localized = &localized;
                    // only meaningful when a text archive can be read there
                    let before = match cx.call(|| w.fs.read_text_archive(path, *localized)) {
                        Some(Ok(t)) => t,
                        Some(Err(_)) => continue,
                        None => return,
                    };
                    let mut t = before;
                    let mut model: Vec<(String, String)> = t.get_entries().iter().map(|(a, b)| (a.clone(), b.clone())).collect();
                    let mut title = t.get_title().to_string();
                    if let Some(nt) = new_title {
                        t.set_title(nt.clone());
                        title = nt.clone();
                    }
                    if let Some(sel) = delete {
                        if !model.is_empty() {
                            let i = (*sel as usize * model.len()) >> 16;
                            let k = model.remove(i).0;
                            t.delete_message(&k);
                        }
                    }
                    let image = match t.serialize() {
                        Ok(b) => b,
                        Err(_) => continue,
                    };
                    let res = match cx.call(|| w.fs.write_text_archive(path, &t, *localized).map_err(|e| e.to_string())) {
                        Some(r) => r,
                        None => return,
                    };
                    let ok = res.is_ok();
                    if !do_write(cx, &mut w, &name, path, &image, *localized, res) {
                        return;
                    }
                    if ok {
                        cx.label("typed:text-archive-edit-without-set");
                        cx.nontrivial();
                        match cx.call(|| w.fs.read_text_archive(path, *localized)) {
                            Some(Ok(r)) => {
                                let got: Vec<(String, String)> = r.get_entries().iter().map(|(a, b)| (a.clone(), b.clone())).collect();
                                let title_ok = endian_be || r.get_title() == title;
                                if !cx.check(got == model && title_ok, "typed-helper-round-trip", || format!("{name}: after load -> edit -> save, read_text_archive returned title {:?} entries {got:?}; expected {title:?} {model:?}", r.get_title())) {
                                    return;
                                }
                            }
                            Some(Err(e)) => {
                                cx.fail("typed-helper-round-trip", format!("{name}: read_text_archive failed after the save: {e}"));
                                return;
                            }
                            None => return,
                        }
                    }
                }
                Op::Textures { path, container, count, seed, localized } => {
                    use crate::refimpl::reftex::{build_bch, build_cgfx, build_ctpk, build_tpl, Tex, TplImage, FORMATS};
                    let n = *count as usize;
                    let mut r = crate::engine::prop::Mix64(*seed);
                    let texs: Vec<Tex> = (0..n)
                        .map(|i| {
                            let fmt = FORMATS[(r.next() % 9) as usize];
                            let (tw, th) = (8usize << (r.next() % 2), 8usize << (r.next() % 2));
                            Tex { name: format!("tex{i}"), w: tw, h: th, fmt, payload: r.bytes(fmt.payload_len(tw, th)), mip_tail: Vec::new() }
                        })
                        .collect();
                    let image = match container % 4 {
                        0 => build_ctpk(&texs, *seed % 3, &|s| s.as_bytes().to_vec()).bytes,
                        1 => build_bch(&texs, *seed % 3).bytes,
                        2 => build_cgfx(&texs, *seed % 3).bytes,
                        _ => {
                            let imgs: Vec<TplImage> = (0..n).map(|i| TplImage { w: 5 + i, h: 3 + i, indices: vec![0; crate::refimpl::reftex::ci8_len(5 + i, 3 + i)], palette: vec![0x8000 | i as u16, 0x7FFF] }).collect();
                            build_tpl(&imgs, *seed % 3).bytes
                        }
                    };
                    let res = match cx.call(|| w.fs.write(path, &image, *localized).map_err(|e| e.to_string())) {
                        Some(r) => r,
                        None => return,
                    };
                    let ok = res.is_ok();
                    if !do_write(cx, &mut w, &name, path, &image, *localized, res) {
                        return;
                    }
                    if ok {
                        cx.label("typed:textures");
                        // typed helper = byte-level read composed with the container parser
                        let direct: Result<Vec<(String, usize, usize, Vec<u8>)>, String> = match container % 4 {
                            0 => mila::ctpk::read(&image).map_err(|e| e.to_string()),
                            1 => mila::bch::read(&image).map_err(|e| e.to_string()),
                            2 => mila::cgfx::read(&image).map_err(|e| e.to_string()),
                            _ => mila::tpl::Tpl::extract_textures(&image).map_err(|e| e.to_string()),
                        }
                        .map(|v| v.into_iter().map(|t| (t.filename, t.width, t.height, t.pixel_data)).collect());
                        let via: Option<Result<Vec<(String, usize, usize, Vec<u8>)>, String>> = cx.call(|| match container % 4 {
                            0 => w.fs.read_ctpk_textures(path, *localized).map(|m| m.into_values().map(|t| (t.filename, t.width, t.height, t.pixel_data)).collect::<Vec<_>>()).map_err(|e| e.to_string()),
                            1 => w.fs.read_bch_textures(path, *localized).map(|m| m.into_values().map(|t| (t.filename, t.width, t.height, t.pixel_data)).collect::<Vec<_>>()).map_err(|e| e.to_string()),
                            2 => w.fs.read_cgfx_textures(path, *localized).map(|m| m.into_values().map(|t| (t.filename, t.width, t.height, t.pixel_data)).collect::<Vec<_>>()).map_err(|e| e.to_string()),
                            _ => w.fs.read_tpl_textures(path, *localized).map(|v| v.into_iter().map(|t| (t.filename, t.width, t.height, t.pixel_data)).collect::<Vec<_>>()).map_err(|e| e.to_string()),
                        });
                        let via = match via {
                            Some(v) => v,
                            None => return,
                        };
                        match (direct, via) {
                            (Ok(mut d), Ok(mut v)) => {
                                d.sort();
                                v.sort();
                                if !cx.check(d == v && d.len() == n, "typed-helper-round-trip", || format!("{name}: the typed texture reader returned {} textures, parsing the written bytes directly gives {} (packed {n})", v.len(), d.len())) {
                                    return;
                                }
                            }
                            (Ok(_), Err(e)) => {
                                cx.fail("typed-helper-round-trip", format!("{name}: typed texture reader failed on a file the container parser accepts: {e}"));
                                return;
                            }
                            (Err(e), _) => {
                                cx.fail("typed-helper-round-trip", format!("{name}: the container parser rejects the harness-built file: {e}"));
                                return;
                            }
                        }
                    }
                }
            }
        }
        cx.label(match game {
            mila::Game::FE9 => "FE9",
            mila::Game::FE10 => "FE10",
            mila::Game::FE13 => "FE13",
            mila::Game::FE14 => "FE14",
            _ => "FE15",
        });
        cx.label_if(nlayers >= 2, "layers>=2");
        cx.label_if(nlayers == 1, "layers=1");
    }
}
