//! Case type shared by the compressor properties C08, C09 and C10(expansion clause).
use crate::gen::bytes::{small_string, BytesSpec};
use serde::{Deserialize, Serialize};

#[derive(Clone, Debug, Hash, Serialize, Deserialize)]
pub enum LzInput {
    /// the `index`-th string of length `len` over {0..k-1}
    Small { k: u8, len: u8, index: u64 },
    Spec(BytesSpec),
    /// a file from /repo/resources/test
    File(String),
}

impl LzInput {
    pub fn bytes(&self) -> Vec<u8> {
        match self {
            LzInput::Small { k, len, index } => small_string(*k, *len, *index),
            LzInput::Spec(s) => s.expand(),
            LzInput::File(name) => super::read_repo_test_file(name),
        }
    }
}

/// bounded-exhaustive enumeration: all strings over {0,1} up to `max2`, over {0,1,2} up to `max3`,
/// plus the repository's test files; sharded by global index.
pub fn enumerate_small(max2: u8, max3: u8, shard: u64, nshards: u64, f: &mut dyn FnMut(LzInput) -> bool) {
    let mut idx: u64 = 0;
    for (k, maxlen) in [(2u8, max2), (3u8, max3)] {
        for len in 0..=maxlen {
            if k == 3 && len < 2 {
                continue; // already covered by k = 2 up to relabelling? no: symbol 2 alone is new only from len 1; keep it cheap
            }
            let count = (k as u64).pow(len as u32);
            for index in 0..count {
                if idx % nshards == shard {
                    if !f(LzInput::Small { k, len, index }) {
                        return;
                    }
                }
                idx += 1;
            }
        }
    }
    for name in super::repo_test_files() {
        if idx % nshards == shard {
            if !f(LzInput::File(name)) {
                return;
            }
        }
        idx += 1;
    }
}

pub fn shrink_input(c: &LzInput) -> Vec<LzInput> {
    // structural candidates: the raw bytes with a half, a quarter, one byte removed
    let b = c.bytes();
    let mut out = Vec::new();
    if b.is_empty() {
        return out;
    }
    let n = b.len();
    out.push(LzInput::Spec(BytesSpec::Raw(b[..n / 2].to_vec())));
    out.push(LzInput::Spec(BytesSpec::Raw(b[n / 2..].to_vec())));
    out.push(LzInput::Spec(BytesSpec::Raw(b[..n - 1].to_vec())));
    out.push(LzInput::Spec(BytesSpec::Raw(b[1..].to_vec())));
    out
}
