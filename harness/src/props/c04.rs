//! C04 — cell access is bounds-safe, endian-correct and local.
//! Model: a Vec<u8>, annotation maps and two cursors; every call's result and the full state
//! afterwards are compared.
use crate::engine::panics;
use crate::engine::prop::{Cx, Mix64, Prop, Tier};
use crate::gen::archive::observe_step;
use crate::gen::strings::archive_string;
use mila::{ArchiveError, BinArchive, BinArchiveReader, BinArchiveWriter, Endian};
use proptest::prelude::*;
use serde::{Deserialize, Serialize};
use std::collections::BTreeMap;

pub struct C04;

#[derive(Clone, Copy, Debug, Hash, PartialEq, Eq, Serialize, Deserialize)]
pub enum Ty {
    U8,
    I8,
    U16,
    I16,
    U32,
    I32,
    F32,
}
impl Ty {
    fn width(self) -> usize {
        match self {
            Ty::U8 | Ty::I8 => 1,
            Ty::U16 | Ty::I16 => 2,
            _ => 4,
        }
    }
    const ALL: [Ty; 7] = [Ty::U8, Ty::I8, Ty::U16, Ty::I16, Ty::U32, Ty::I32, Ty::F32];
}

/// an address or length anywhere in 0..=usize::MAX, expressed relative to interesting points
#[derive(Clone, Copy, Debug, Hash, Serialize, Deserialize)]
pub enum A {
    /// absolute small value
    Abs(u8),
    /// size + delta (delta in -8..=8)
    End(i8),
    /// 2^k + delta
    Pow(u8, i8),
    /// usize::MAX - d
    Max(u8),
    /// x * size / 256: always inside the data region (when it is non-empty)
    Frac(u8),
}
fn resolve(a: A, size: usize) -> usize {
    match a {
        A::Abs(x) => x as usize,
        A::End(d) => (size as i64 + d as i64).max(0) as usize,
        A::Pow(k, d) => ((1u128 << k.min(63)) as i128 + d as i128).clamp(0, usize::MAX as i128) as usize,
        A::Max(d) => usize::MAX - d as usize,
        A::Frac(x) => (x as usize * size) >> 8,
    }
}

#[derive(Clone, Debug, Hash, Serialize, Deserialize)]
pub enum Op {
    Read(Ty, A),
    Write(Ty, A, u32),
    ReadBytes(A, A),
    WriteBytes(A, Vec<u8>),
    ReadString(A),
    WriteString(A, Option<String>),
    ReadPointer(A),
    WritePointer(A, Option<u32>),
    ReadLabels(A),
    WriteLabel(A, String),
    WriteLabels(A, Vec<String>),
    DeleteString(A),
    DeletePointer(A),
    DeleteLabels(A),
    DeleteLabel(A, u8),
    ReadCString(A),
    // reader stream (one reader instance per run of consecutive R* ops)
    RSeek(A),
    RSkip(u8),
    RRead(Ty),
    RReadBytes(A),
    RReadString,
    RReadPointer,
    RReadCString,
    RReadLabel(u8),
    RReadLabels,
    // writer stream
    WSeek(A),
    WSkip(u8),
    WWrite(Ty, u32),
    WWriteBytes(Vec<u8>),
    WWriteString(Option<String>),
    WWritePointer(Option<u32>),
    WWriteLabel(String),
    // c-strings are write-only until serialization: their effect is observed through the positional twin (see `run`)
    WriteCString(A, String),
    WWriteCString(String),
    /// write_pointer(a, Some(v)) where v is the u32 the cell currently holds - the state every pointer cell of a parsed file is in
    WritePointerAsStored(A),
}
impl Op {
    fn is_reader(&self) -> bool {
        matches!(self, Op::RSeek(_) | Op::RSkip(_) | Op::RRead(_) | Op::RReadBytes(_) | Op::RReadString | Op::RReadPointer | Op::RReadCString | Op::RReadLabel(_) | Op::RReadLabels)
    }
    fn is_writer(&self) -> bool {
        matches!(self, Op::WSeek(_) | Op::WSkip(_) | Op::WWrite(..) | Op::WWriteBytes(_) | Op::WWriteString(_) | Op::WWritePointer(_) | Op::WWriteLabel(_) | Op::WWriteCString(_))
    }
}

#[derive(Clone, Debug, Hash, Serialize, Deserialize)]
pub struct Case {
    pub big_endian: bool,
    pub size: u8,
    pub data_seed: u64,
    pub ops: Vec<Op>,
}

#[derive(Clone, Debug, Default)]
struct Model {
    be: bool,
    data: Vec<u8>,
    text: BTreeMap<usize, String>,
    ptrs: BTreeMap<usize, usize>,
    labels: BTreeMap<usize, Vec<String>>,
    rpos: usize,
    wpos: usize,
    /// every successful annotation mutation as the positional call that is claimed to be equivalent
    mirror: Vec<MOp>,
    cstring_writes: usize,
}

#[derive(Clone, Debug)]
enum MOp {
    Str(usize, Option<String>),
    Ptr(usize, Option<usize>),
    Label(usize, String),
    Labels(usize, Vec<String>),
    DelStr(usize),
    DelPtr(usize),
    DelLabels(usize),
    DelLabel(usize, usize),
    CStr(usize, String),
}
impl MOp {
    fn apply(&self, a: &mut BinArchive) -> R<()> {
        match self {
            MOp::Str(ad, s) => a.write_string(*ad, s.as_deref()),
            MOp::Ptr(ad, v) => a.write_pointer(*ad, *v),
            MOp::Label(ad, s) => a.write_label(*ad, s),
            MOp::Labels(ad, v) => a.write_labels(*ad, v.clone()),
            MOp::DelStr(ad) => a.delete_string(*ad),
            MOp::DelPtr(ad) => a.delete_pointer(*ad),
            MOp::DelLabels(ad) => a.delete_labels(*ad),
            MOp::DelLabel(ad, i) => a.delete_label(*ad, *i),
            MOp::CStr(ad, s) => a.write_c_string(*ad, s.clone()),
        }
    }
}

fn in_range(a: usize, w: usize, size: usize) -> bool {
    w >= 1 && (a as u128 + w as u128) <= size as u128
}

fn enc(be: bool, ty: Ty, bits: u32) -> Vec<u8> {
    match ty {
        Ty::U8 | Ty::I8 => vec![bits as u8],
        Ty::U16 | Ty::I16 => {
            if be {
                (bits as u16).to_be_bytes().to_vec()
            } else {
                (bits as u16).to_le_bytes().to_vec()
            }
        }
        _ => {
            if be {
                bits.to_be_bytes().to_vec()
            } else {
                bits.to_le_bytes().to_vec()
            }
        }
    }
}
fn dec(be: bool, ty: Ty, b: &[u8]) -> u32 {
    match ty {
        Ty::U8 | Ty::I8 => b[0] as u32,
        Ty::U16 | Ty::I16 => (if be { u16::from_be_bytes([b[0], b[1]]) } else { u16::from_le_bytes([b[0], b[1]]) }) as u32,
        _ => {
            if be {
                u32::from_be_bytes([b[0], b[1], b[2], b[3]])
            } else {
                u32::from_le_bytes([b[0], b[1], b[2], b[3]])
            }
        }
    }
}

type R<T> = Result<T, ArchiveError>;

fn pos_read(a: &BinArchive, ty: Ty, ad: usize) -> R<u32> {
    Ok(match ty {
        Ty::U8 => a.read_u8(ad)? as u32,
        Ty::I8 => a.read_i8(ad)? as u8 as u32,
        Ty::U16 => a.read_u16(ad)? as u32,
        Ty::I16 => a.read_i16(ad)? as u16 as u32,
        Ty::U32 => a.read_u32(ad)?,
        Ty::I32 => a.read_i32(ad)? as u32,
        Ty::F32 => a.read_f32(ad)?.to_bits(),
    })
}
fn pos_write(a: &mut BinArchive, ty: Ty, ad: usize, bits: u32) -> R<()> {
    match ty {
        Ty::U8 => a.write_u8(ad, bits as u8),
        Ty::I8 => a.write_i8(ad, bits as u8 as i8),
        Ty::U16 => a.write_u16(ad, bits as u16),
        Ty::I16 => a.write_i16(ad, bits as u16 as i16),
        Ty::U32 => a.write_u32(ad, bits),
        Ty::I32 => a.write_i32(ad, bits as i32),
        Ty::F32 => a.write_f32(ad, f32::from_bits(bits)),
    }
}
fn r_read(r: &mut BinArchiveReader, ty: Ty) -> R<u32> {
    Ok(match ty {
        Ty::U8 => r.read_u8()? as u32,
        Ty::I8 => r.read_i8()? as u8 as u32,
        Ty::U16 => r.read_u16()? as u32,
        Ty::I16 => r.read_i16()? as u16 as u32,
        Ty::U32 => r.read_u32()?,
        Ty::I32 => r.read_i32()? as u32,
        Ty::F32 => r.read_f32()?.to_bits(),
    })
}
fn w_write(w: &mut BinArchiveWriter, ty: Ty, bits: u32) -> R<()> {
    match ty {
        Ty::U8 => w.write_u8(bits as u8),
        Ty::I8 => w.write_i8(bits as u8 as i8),
        Ty::U16 => w.write_u16(bits as u16),
        Ty::I16 => w.write_i16(bits as u16 as i16),
        Ty::U32 => w.write_u32(bits),
        Ty::I32 => w.write_i32(bits as i32),
        Ty::F32 => w.write_f32(f32::from_bits(bits)),
    }
}

/// full-state comparison
fn compare(cx: &mut Cx, step: &str, a: &BinArchive, m: &Model) -> bool {
    let o = match observe_step(a, 1) {
        Ok(o) => o,
        Err(e) => {
            cx.fail("observe", format!("{step}: {e}"));
            return false;
        }
    };
    if !cx.check(o.size == m.data.len() && o.bytes == m.data, "only-addressed-bytes-change", || {
        let i = o.bytes.iter().zip(m.data.iter()).position(|(x, y)| x != y);
        format!("{step}: data differs from the model (size {} vs {}, first differing byte {:?}): {:02x?} vs {:02x?}", o.size, m.data.len(), i, o.bytes, m.data)
    }) {
        return false;
    }
    cx.check(o.strings == m.text, "annotations-as-modelled", || format!("{step}: strings {:?} vs model {:?}", o.strings, m.text))
        && cx.check(o.pointers == m.ptrs, "annotations-as-modelled", || format!("{step}: pointers {:?} vs model {:?}", o.pointers, m.ptrs))
        && cx.check(o.labels == m.labels, "annotations-as-modelled", || format!("{step}: labels {:?} vs model {:?}", o.labels, m.labels))
}

macro_rules! typed_check {
    ($cx:expr, $name:expr, $res:expr, $should:expr) => {
        match (&$res, $should) {
            (Ok(_), false) => {
                $cx.fail("out-of-range-access-rejected", format!("{}: access whose range is not inside the data region succeeded", $name));
                return false;
            }
            (Err(e), true) => {
                $cx.fail("in-range-access-accepted", format!("{}: access inside the data region failed: {}", $name, e));
                return false;
            }
            _ => {}
        }
    };
}

/// one positional op
fn positional(cx: &mut Cx, name: &str, op: &Op, a: &mut BinArchive, m: &mut Model) -> bool {
    let size = m.data.len();
    match op {
        Op::Read(ty, ad) => {
            let ad = resolve(*ad, size);
            let ok = in_range(ad, ty.width(), size);
            let res = match cx.call(|| pos_read(a, *ty, ad)) {
                Some(r) => r,
                None => return false,
            };
            typed_check!(cx, name, res, ok);
            if let Ok(bits) = res {
                let want = dec(m.be, *ty, &m.data[ad..ad + ty.width()]);
                if !cx.check(bits == want, "endian-correct-read", || format!("{name}: read {bits:#x}, the bytes {:02x?} mean {want:#x} in this endianness", &m.data[ad..ad + ty.width()])) {
                    return false;
                }
            }
            cx.label_if(!ok && ad < size, "straddles-the-end");
            cx.label_if(ad > (1 << 31), "address>=2^31");
        }
        Op::Write(ty, ad, bits) => {
            let ad = resolve(*ad, size);
            let ok = in_range(ad, ty.width(), size);
            let res = match cx.call(|| pos_write(a, *ty, ad, *bits)) {
                Some(r) => r,
                None => return false,
            };
            typed_check!(cx, name, res, ok);
            if res.is_ok() {
                let b = enc(m.be, *ty, *bits);
                m.data[ad..ad + b.len()].copy_from_slice(&b);
                // matching read returns the value unchanged
                match cx.call(|| pos_read(a, *ty, ad)) {
                    Some(Ok(back)) => {
                        let mask = if ty.width() == 4 { u32::MAX } else { (1u32 << (8 * ty.width())) - 1 };
                        if !cx.check(back == *bits & mask, "write-then-read-identity", || format!("{name}: wrote {:#x}, matching read returned {back:#x}", *bits & mask)) {
                            return false;
                        }
                    }
                    Some(Err(e)) => {
                        cx.fail("write-then-read-identity", format!("{name}: matching read failed: {e}"));
                        return false;
                    }
                    None => return false,
                }
                cx.label_if(m.be && ty.width() > 1, "big-endian-multibyte-write-read-back");
                cx.label_if(*ty == Ty::F32 && f32::from_bits(*bits).is_nan(), "nan-payload");
            }
            cx.label_if(!ok && ad < size, "straddles-the-end");
            cx.label_if(ad > (1 << 31), "address>=2^31");
        }
        Op::ReadBytes(ad, len) => {
            let (ad, len) = (resolve(*ad, size), resolve(*len, size));
            let res = match cx.call(|| a.read_bytes(ad, len).map(|s| s.to_vec())) {
                Some(r) => r,
                None => return false,
            };
            if len >= 1 {
                typed_check!(cx, name, res, in_range(ad, len, size));
                if let Ok(b) = &res {
                    if !cx.check(b[..] == m.data[ad..ad + len], "read-bytes-content", || format!("{name}: returned {b:02x?}")) {
                        return false;
                    }
                }
            }
            cx.label_if(len > 0 && !in_range(ad, len, size) && ad < size, "straddles-the-end");
            cx.label_if(ad.checked_add(len).is_none(), "address+length-overflows");
        }
        Op::WriteBytes(ad, data) => {
            let ad = resolve(*ad, size);
            let res = match cx.call(|| a.write_bytes(ad, data)) {
                Some(r) => r,
                None => return false,
            };
            if !data.is_empty() {
                typed_check!(cx, name, res, in_range(ad, data.len(), size));
                if res.is_ok() {
                    m.data[ad..ad + data.len()].copy_from_slice(data);
                }
            }
            cx.label_if(!data.is_empty() && !in_range(ad, data.len(), size) && ad < size, "straddles-the-end");
        }
        // annotation accessors: acceptance adopted (interpretation 10), effect and locality asserted
        Op::ReadString(ad) => {
            let ad = resolve(*ad, size);
            if let Some(Ok(v)) = cx.call(|| a.read_string(ad)) {
                if !cx.check(v == m.text.get(&ad).cloned(), "annotation-read", || format!("{name}: returned {v:?}, model has {:?}", m.text.get(&ad))) {
                    return false;
                }
            }
        }
        Op::WriteString(ad, s) => {
            let ad = resolve(*ad, size);
            if let Some(Ok(())) = cx.call(|| a.write_string(ad, s.as_deref())) {
                m.mirror.push(MOp::Str(ad, s.clone()));
                match s {
                    Some(s) => {
                        m.text.insert(ad, s.clone());
                    }
                    None => {
                        m.text.remove(&ad);
                    }
                }
            }
        }
        Op::ReadPointer(ad) => {
            let ad = resolve(*ad, size);
            if let Some(Ok(v)) = cx.call(|| a.read_pointer(ad)) {
                if !cx.check(v == m.ptrs.get(&ad).copied(), "annotation-read", || format!("{name}: returned {v:?}, model has {:?}", m.ptrs.get(&ad))) {
                    return false;
                }
            }
        }
        Op::WritePointer(ad, v) => {
            let ad = resolve(*ad, size);
            if let Some(Ok(())) = cx.call(|| a.write_pointer(ad, v.map(|x| x as usize))) {
                m.mirror.push(MOp::Ptr(ad, v.map(|x| x as usize)));
                match v {
                    Some(v) => {
                        m.ptrs.insert(ad, *v as usize);
                    }
                    None => {
                        m.ptrs.remove(&ad);
                    }
                }
            }
        }
        Op::WritePointerAsStored(ad) => {
            let ad = resolve(*ad, size);
            if in_range(ad, 4, size) {
                let v = dec(m.be, Ty::U32, &m.data[ad..ad + 4]) as usize;
                if let Some(Ok(())) = cx.call(|| a.write_pointer(ad, Some(v))) {
                    m.mirror.push(MOp::Ptr(ad, Some(v)));
                    m.ptrs.insert(ad, v);
                    cx.label("pointer-equal-to-the-cell-value");
                }
            }
        }
        Op::ReadLabels(ad) => {
            let ad = resolve(*ad, size);
            if let Some(Ok(v)) = cx.call(|| a.read_labels(ad)) {
                let want = m.labels.get(&ad).cloned();
                if !cx.check(v.clone().filter(|x| !x.is_empty()) == want, "annotation-read", || format!("{name}: returned {v:?}, model has {want:?}")) {
                    return false;
                }
            }
        }
        Op::WriteLabel(ad, s) => {
            let ad = resolve(*ad, size);
            if let Some(Ok(())) = cx.call(|| a.write_label(ad, s)) {
                m.mirror.push(MOp::Label(ad, s.clone()));
                m.labels.entry(ad).or_default().push(s.clone());
            }
        }
        Op::WriteLabels(ad, names) => {
            let ad = resolve(*ad, size);
            if let Some(Ok(())) = cx.call(|| a.write_labels(ad, names.clone())) {
                m.mirror.push(MOp::Labels(ad, names.clone()));
                if names.is_empty() {
                    // an empty bucket is not observable through all_labels: the model keeps no entry for it
                    m.labels.remove(&ad);
                    cx.label("empty-label-bucket");
                } else {
                    m.labels.insert(ad, names.clone());
                }
            }
        }
        Op::DeleteString(ad) => {
            let ad = resolve(*ad, size);
            if let Some(Ok(())) = cx.call(|| a.delete_string(ad)) {
                m.mirror.push(MOp::DelStr(ad));
                m.text.remove(&ad);
            }
        }
        Op::DeletePointer(ad) => {
            let ad = resolve(*ad, size);
            if let Some(Ok(())) = cx.call(|| a.delete_pointer(ad)) {
                m.mirror.push(MOp::DelPtr(ad));
                m.ptrs.remove(&ad);
            }
        }
        Op::DeleteLabels(ad) => {
            let ad = resolve(*ad, size);
            if let Some(Ok(())) = cx.call(|| a.delete_labels(ad)) {
                m.mirror.push(MOp::DelLabels(ad));
                m.labels.remove(&ad);
            }
        }
        Op::DeleteLabel(ad, idx) => {
            let ad = resolve(*ad, size);
            if let Some(Ok(())) = cx.call(|| a.delete_label(ad, *idx as usize)) {
                m.mirror.push(MOp::DelLabel(ad, *idx as usize));
                if let Some(b) = m.labels.get_mut(&ad) {
                    if (*idx as usize) < b.len() {
                        b.remove(*idx as usize);
                    }
                    if b.is_empty() {
                        m.labels.remove(&ad);
                        cx.label("empty-label-bucket");
                    }
                }
            }
        }
        Op::ReadCString(ad) => {
            let ad = resolve(*ad, size);
            let _ = cx.call(|| a.read_c_string(ad));
        }
        Op::WriteCString(ad, s) => {
            let ad = resolve(*ad, size);
            if let Some(Ok(())) = cx.call(|| a.write_c_string(ad, s.clone())) {
                m.mirror.push(MOp::CStr(ad, s.clone()));
                m.cstring_writes += 1;
            }
        }
        _ => unreachable!(),
    }
    !cx.failed()
}

/// a run of consecutive reader ops on ONE reader instance
fn reader_run(cx: &mut Cx, first: usize, ops: &[Op], a: &BinArchive, m: &mut Model) -> bool {
    let size = m.data.len();
    let mut r = BinArchiveReader::new(a, m.rpos);
    for (k, op) in ops.iter().enumerate() {
        let name = format!("step {} {op:?} (reader cursor {})", first + k, m.rpos);
        let name = name.as_str();
        match op {
            Op::RSeek(p) => {
                m.rpos = resolve(*p, size);
                r.seek(m.rpos);
            }
            Op::RSkip(n) => {
                if m.rpos.checked_add(*n as usize).is_none() {
                    continue; // cursor overflow is excluded by the property
                }
                r.skip(*n as usize);
                m.rpos += *n as usize;
            }
            Op::RRead(ty) => {
                let ok = in_range(m.rpos, ty.width(), size);
                let res = match cx.call(|| r_read(&mut r, *ty)) {
                    Some(x) => x,
                    None => return false,
                };
                typed_check!(cx, name, res, ok);
                if let Ok(bits) = res {
                    let want = dec(m.be, *ty, &m.data[m.rpos..m.rpos + ty.width()]);
                    if !cx.check(bits == want, "stream-equals-positional", || format!("{name}: stream read {bits:#x}, positional meaning {want:#x}")) {
                        return false;
                    }
                    m.rpos += ty.width();
                }
                cx.label("stream-read");
            }
            Op::RReadBytes(len) => {
                let len = resolve(*len, size);
                let res = match cx.call(|| r.read_bytes(len)) {
                    Some(x) => x,
                    None => return false,
                };
                // the sequence of u8 reads it is defined as
                let avail = size.saturating_sub(m.rpos);
                if len == 0 {
                    // zero-length: only panic-freedom (interpretation 8)
                } else if len <= avail {
                    match &res {
                        Ok(b) => {
                            if !cx.check(b[..] == m.data[m.rpos..m.rpos + len], "stream-equals-positional", || format!("{name}: returned {b:02x?}")) {
                                return false;
                            }
                        }
                        Err(e) => {
                            cx.fail("in-range-access-accepted", format!("{name}: {len} bytes are available at the cursor but the read failed: {e}"));
                            return false;
                        }
                    }
                    m.rpos += len;
                } else {
                    if !cx.check(res.is_err(), "out-of-range-access-rejected", || format!("{name}: reading {len} bytes with only {avail} available succeeded")) {
                        return false;
                    }
                    // a failed slice read either leaves the cursor where it was, or has advanced it over the u8 reads that
                    // succeeded before the failing one (interpretation 9): both are accepted, nothing else
                    if r.tell() == m.rpos + avail {
                        m.rpos += avail;
                    }
                    cx.label("stream-slice-straddles-the-end");
                }
            }
            Op::RReadString | Op::RReadPointer | Op::RReadCString => {
                let p = m.rpos;
                let ok = match op {
                    Op::RReadString => cx.call(|| r.read_string().map(|v| (v, None))).map(|x| x.map(|(v, _): (Option<String>, Option<usize>)| (v, None::<usize>))),
                    Op::RReadPointer => cx.call(|| r.read_pointer().map(|v| (None, v))),
                    _ => cx.call(|| r.read_c_string().map(|_| (None, None))),
                };
                match ok {
                    Some(Ok((s, pv))) => {
                        if matches!(op, Op::RReadString) && !cx.check(s == m.text.get(&p).cloned(), "stream-equals-positional", || format!("{name}: returned {s:?}, positional has {:?}", m.text.get(&p))) {
                            return false;
                        }
                        if matches!(op, Op::RReadPointer) && !cx.check(pv == m.ptrs.get(&p).copied(), "stream-equals-positional", || format!("{name}: returned {pv:?}, positional has {:?}", m.ptrs.get(&p))) {
                            return false;
                        }
                        m.rpos += 4;
                    }
                    Some(Err(_)) => {}
                    None => return false,
                }
            }
            Op::RReadLabel(idx) => {
                if let Some(Ok(v)) = cx.call(|| r.read_label(*idx as usize)) {
                    let want = m.labels.get(&m.rpos).and_then(|b| b.get(*idx as usize).cloned());
                    if !cx.check(v == want, "stream-equals-positional", || format!("{name}: returned {v:?}, model has {want:?}")) {
                        return false;
                    }
                }
            }
            Op::RReadLabels => {
                if let Some(Ok(v)) = cx.call(|| r.read_labels()) {
                    let want = m.labels.get(&m.rpos).cloned();
                    if !cx.check(v.clone().filter(|x| !x.is_empty()) == want, "stream-equals-positional", || format!("{name}: returned {v:?}, model has {want:?}")) {
                        return false;
                    }
                }
            }
            _ => unreachable!(),
        }
        if cx.failed() {
            return false;
        }
        if !cx.check(r.tell() == m.rpos, "cursor-advances-by-width", || format!("{name}: reader cursor is {}, expected {}", r.tell(), m.rpos)) {
            return false;
        }
        if !cx.check(r.archive().size() == size, "stream-size-accessors", || format!("{name}: reader.archive().size() = {}, archive size {size}", r.archive().size())) {
            return false;
        }
    }
    true
}

fn writer_run(cx: &mut Cx, first: usize, ops: &[Op], a: &mut BinArchive, m: &mut Model) -> bool {
    let size = m.data.len();
    let mut w = BinArchiveWriter::new(a, m.wpos);
    for (k, op) in ops.iter().enumerate() {
        let name = format!("step {} {op:?} (writer cursor {})", first + k, m.wpos);
        let name = name.as_str();
        match op {
            Op::WSeek(p) => {
                m.wpos = resolve(*p, size);
                w.seek(m.wpos);
            }
            Op::WSkip(n) => {
                if m.wpos.checked_add(*n as usize).is_none() {
                    continue;
                }
                w.skip(*n as usize);
                m.wpos += *n as usize;
            }
            Op::WWrite(ty, bits) => {
                let ok = in_range(m.wpos, ty.width(), size);
                let res = match cx.call(|| w_write(&mut w, *ty, *bits)) {
                    Some(x) => x,
                    None => return false,
                };
                typed_check!(cx, name, res, ok);
                if res.is_ok() {
                    let b = enc(m.be, *ty, *bits);
                    m.data[m.wpos..m.wpos + b.len()].copy_from_slice(&b);
                    m.wpos += ty.width();
                }
                cx.label("stream-write");
            }
            Op::WWriteBytes(data) => {
                let res = match cx.call(|| w.write_bytes(data)) {
                    Some(x) => x,
                    None => return false,
                };
                let avail = size.saturating_sub(m.wpos);
                let n = data.len().min(avail);
                if !data.is_empty() {
                    if !cx.check(res.is_ok() == (data.len() <= avail), "stream-slice-acceptance", || format!("{name}: {} bytes with {avail} available: {:?}", data.len(), res.as_ref().err().map(|e| e.to_string()))) {
                        return false;
                    }
                }
                // success: all bytes written, cursor advanced. Failure: either nothing happened, or the prefix that fitted was
                // written byte by byte and the cursor advanced over it (interpretation 9) - told apart by the cursor
                let partial = res.is_ok() || w.tell() == m.wpos + n;
                if n > 0 && partial {
                    m.data[m.wpos..m.wpos + n].copy_from_slice(&data[..n]);
                    m.wpos += n;
                }
            }
            Op::WWriteString(s) => {
                if let Some(Ok(())) = cx.call(|| w.write_string(s.as_deref())) {
                    m.mirror.push(MOp::Str(m.wpos, s.clone()));
                    match s {
                        Some(s) => {
                            m.text.insert(m.wpos, s.clone());
                        }
                        None => {
                            m.text.remove(&m.wpos);
                        }
                    }
                    m.wpos += 4;
                }
            }
            Op::WWritePointer(v) => {
                if let Some(Ok(())) = cx.call(|| w.write_pointer(v.map(|x| x as usize))) {
                    m.mirror.push(MOp::Ptr(m.wpos, v.map(|x| x as usize)));
                    match v {
                        Some(v) => {
                            m.ptrs.insert(m.wpos, *v as usize);
                        }
                        None => {
                            m.ptrs.remove(&m.wpos);
                        }
                    }
                    m.wpos += 4;
                }
            }
            Op::WWriteLabel(s) => {
                if let Some(Ok(())) = cx.call(|| w.write_label(s)) {
                    m.mirror.push(MOp::Label(m.wpos, s.clone()));
                    m.labels.entry(m.wpos).or_default().push(s.clone());
                }
            }
            Op::WWriteCString(s) => {
                if let Some(Ok(())) = cx.call(|| w.write_c_string(s.clone())) {
                    m.mirror.push(MOp::CStr(m.wpos, s.clone()));
                    m.cstring_writes += 1;
                    m.wpos += 4;
                    cx.label("stream-c-string-write");
                }
            }
            _ => unreachable!(),
        }
        if cx.failed() {
            return false;
        }
        if !cx.check(w.tell() == m.wpos, "cursor-advances-by-width", || format!("{name}: writer cursor is {}, expected {}", w.tell(), m.wpos)) {
            return false;
        }
        if !cx.check(w.size() == size && w.length() == size, "stream-size-accessors", || format!("{name}: writer size() = {}, length() = {}, archive size {size}", w.size(), w.length())) {
            return false;
        }
    }
    true
}

fn addr_strategy() -> BoxedStrategy<A> {
    prop_oneof![
        4 => (0u8..=40).prop_map(A::Abs),
        7 => any::<u8>().prop_map(A::Frac),
        5 => (-8i8..=8).prop_map(A::End),
        1 => (proptest::sample::select(vec![16u8, 31, 32, 33, 63]), -3i8..=3).prop_map(|(k, d)| A::Pow(k, d)),
        1 => (0u8..=8).prop_map(A::Max),
    ]
    .boxed()
}
fn bits_strategy() -> BoxedStrategy<u32> {
    prop_oneof![
        4 => any::<u32>(),
        2 => proptest::sample::select(vec![0x0102_0304u32, 0x7FC0_0001, 0x7F80_0001, 0xFFC1_2345, 0x7F80_0000, 0xFF80_0000, 0x8000_0000, 0, 0xFFFF_FFFF, 0x7FFF_FFFF, 0x0000_8000, 0x0000_7FFF, 0x0000_FFFF, 0x80, 0x7F, 0xFF]),
    ]
    .boxed()
}
fn ty_strategy() -> BoxedStrategy<Ty> {
    proptest::sample::select(Ty::ALL.to_vec()).boxed()
}

pub fn op_strategy() -> BoxedStrategy<Op> {
    let a = addr_strategy;
    let small = || proptest::collection::vec(any::<u8>(), 0..10);
    prop_oneof![
        4 => (ty_strategy(), a()).prop_map(|(t, x)| Op::Read(t, x)),
        5 => (ty_strategy(), a(), bits_strategy()).prop_map(|(t, x, b)| Op::Write(t, x, b)),
        3 => (a(), a()).prop_map(|(x, l)| Op::ReadBytes(x, l)),
        2 => (a(), small()).prop_map(|(x, d)| Op::WriteBytes(x, d)),
        1 => a().prop_map(Op::ReadString),
        2 => (a(), proptest::option::weighted(0.8, archive_string())).prop_map(|(x, s)| Op::WriteString(x, s)),
        1 => a().prop_map(Op::ReadPointer),
        2 => (a(), proptest::option::weighted(0.8, any::<u32>())).prop_map(|(x, v)| Op::WritePointer(x, v)),
        1 => a().prop_map(Op::ReadLabels),
        2 => (a(), archive_string()).prop_map(|(x, s)| Op::WriteLabel(x, s)),
        1 => (a(), proptest::collection::vec(archive_string(), 0..3)).prop_map(|(x, s)| Op::WriteLabels(x, s)),
        1 => a().prop_map(Op::DeleteString),
        1 => a().prop_map(Op::DeletePointer),
        1 => a().prop_map(Op::DeleteLabels),
        1 => (a(), 0u8..3).prop_map(|(x, i)| Op::DeleteLabel(x, i)),
        1 => a().prop_map(Op::ReadCString),
        1 => (a(), archive_string()).prop_map(|(x, s)| Op::WriteCString(x, s)),
        1 => a().prop_map(Op::WritePointerAsStored),
        3 => a().prop_map(Op::RSeek),
        1 => (0u8..6).prop_map(Op::RSkip),
        6 => ty_strategy().prop_map(Op::RRead),
        2 => a().prop_map(Op::RReadBytes),
        1 => Just(Op::RReadString),
        1 => Just(Op::RReadPointer),
        1 => Just(Op::RReadCString),
        1 => (0u8..3).prop_map(Op::RReadLabel),
        1 => Just(Op::RReadLabels),
        3 => a().prop_map(Op::WSeek),
        1 => (0u8..6).prop_map(Op::WSkip),
        6 => (ty_strategy(), bits_strategy()).prop_map(|(t, b)| Op::WWrite(t, b)),
        2 => small().prop_map(Op::WWriteBytes),
        1 => proptest::option::weighted(0.8, archive_string()).prop_map(Op::WWriteString),
        1 => proptest::option::weighted(0.8, any::<u32>()).prop_map(Op::WWritePointer),
        1 => archive_string().prop_map(Op::WWriteLabel),
        1 => archive_string().prop_map(Op::WWriteCString),
    ]
    .boxed()
}

fn palette(size: usize) -> Vec<A> {
    let mut v: Vec<A> = (0..=(size + 8).min(255)).map(|x| A::Abs(x as u8)).collect();
    for k in [16u8, 31, 32, 33, 63] {
        for d in -3i8..=3 {
            v.push(A::Pow(k, d));
        }
    }
    for d in 0..=8u8 {
        v.push(A::Max(d));
    }
    v
}

impl Prop for C04 {
    type Case = Case;
    const ID: &'static str = "C04";
    fn rule() -> String {
        "An archive of size 0..=24 (quick) / 0..=80 (thorough), either endianness, random initial bytes, and a list of operations mixing positional calls (typed read/write of every width, read_bytes/write_bytes, \
         string/pointer/label/c-string accessors and deletes) with BinArchiveReader and BinArchiveWriter calls (seek, skip, typed and slice reads/writes, annotation accessors, label accessors; consecutive stream calls share ONE \
         stream instance). Addresses and lengths come from a boundary palette: 0..=size+8, size+-8, 2^k+-3 for k in {16,31,32,33,63}, usize::MAX-{0..8}; values: random bits plus planted 0x01020304, quiet/signalling NaN payloads, +-inf, +-0, integer extremes. \
         Oracle (model = Vec<u8> + maps + two cursors): a typed access of width w>=1 at a succeeds iff a+w <= size (computed in u128), otherwise Err, never a panic; a successful write changes exactly [a,a+w) to the value's LE/BE byte layout computed \
         by the harness and the matching read returns the same bits; reads return the LE/BE meaning of the model bytes; annotation accessors never change the bytes and their Ok results equal the model; after EVERY call the whole state \
         (all bytes, every cell's string/pointer, all labels) and both cursors are compared; stream calls equal the positional call at the cursor and advance it by exactly the width on success and not at all on failure (a failing slice call either changes nothing or has performed the u8 accesses that fitted); label accessors never move it; c-string writes (positional and stream), which cannot be read back before serialization, are decided by a positional twin: a second archive with the same bytes receives every successful annotation call of the history as the positional call at the modelled cursor, and both archives must serialize to identical bytes. \
         Bounded-exhaustive tier: every typed accessor (positional and stream) x every size 0..=12 x every palette address x both endiannesses; read_bytes x every palette address x every palette length. \
         Non-trivial: the case contains an access straddling the end, or an address >= 2^31, or a big-endian multi-byte write read back, or >= 3 interleaved stream/positional calls. Distinct = distinct case value."
            .into()
    }
    fn assumptions() -> Vec<String> {
        vec![
            "zero-length slice accesses: only panic-freedom and no state change (interpretation 8)".into(),
            "acceptance domain of annotation accessors is not asserted, only their effect and locality (interpretation 10)".into(),
            "cursor arithmetic that itself overflows usize (skip near usize::MAX) is not generated".into(),
        ]
    }
    fn both_builds() -> bool {
        true
    }
    fn random_cases(tier: Tier) -> u64 {
        tier.pick(120_000, 6_000_000)
    }
    fn strategy(tier: Tier) -> BoxedStrategy<Case> {
        let max_size = tier.pick(24u8, 80);
        let max_ops = tier.pick(16usize, 40);
        (any::<bool>(), 0..=max_size, any::<u64>(), proptest::collection::vec(op_strategy(), 1..=max_ops))
            .prop_map(|(big_endian, size, data_seed, ops)| Case { big_endian, size, data_seed, ops })
            .boxed()
    }
    fn enumerate(_tier: Tier, shard: u64, nshards: u64, f: &mut dyn FnMut(Case) -> bool) {
        let mut idx = 0u64;
        let mut emit = |c: Case| -> bool {
            let mine = idx % nshards == shard;
            idx += 1;
            !mine || f(c)
        };
        for size in 0u8..=12 {
            let pal = palette(size as usize);
            for be in [false, true] {
                for ad in &pal {
                    for ty in Ty::ALL {
                        let bits = 0x8182_8384u32 ^ (size as u32) << 8;
                        if !emit(Case { big_endian: be, size, data_seed: 7, ops: vec![Op::Read(ty, *ad)] }) {
                            return;
                        }
                        if !emit(Case { big_endian: be, size, data_seed: 7, ops: vec![Op::Write(ty, *ad, bits)] }) {
                            return;
                        }
                        if !emit(Case { big_endian: be, size, data_seed: 7, ops: vec![Op::RSeek(*ad), Op::RRead(ty), Op::RRead(ty)] }) {
                            return;
                        }
                        if !emit(Case { big_endian: be, size, data_seed: 7, ops: vec![Op::WSeek(*ad), Op::WWrite(ty, bits), Op::WWrite(ty, !bits)] }) {
                            return;
                        }
                    }
                    // a bucket emptied by delete_label / write_labels(vec![]) and then read through every label accessor
                    if !emit(Case { big_endian: be, size, data_seed: 9, ops: vec![Op::WriteLabel(*ad, "l".into()), Op::DeleteLabel(*ad, 0), Op::RSeek(*ad), Op::RReadLabel(0), Op::RReadLabel(1), Op::RReadLabels, Op::ReadLabels(*ad), Op::WriteLabels(*ad, vec![]), Op::RReadLabel(0), Op::RReadLabels, Op::WSeek(*ad), Op::WWriteLabel("m".into()), Op::RReadLabel(0)] }) {
                        return;
                    }
                    // stream c-string writes (two in a row, then a typed write that must land 8 bytes on) against their positional twin
                    if !emit(Case { big_endian: be, size, data_seed: 9, ops: vec![Op::WSeek(*ad), Op::WWriteCString("c".into()), Op::WWriteCString("d".into()), Op::WWrite(Ty::U8, 0x5A), Op::WriteCString(A::Abs(0), "c".into())] }) {
                        return;
                    }
                    if !emit(Case { big_endian: be, size, data_seed: 9, ops: vec![Op::WritePointerAsStored(*ad), Op::ReadPointer(*ad), Op::DeletePointer(*ad), Op::WritePointerAsStored(*ad), Op::WritePointer(*ad, None), Op::WSeek(*ad), Op::WritePointerAsStored(*ad), Op::WWritePointer(None)] }) {
                        return;
                    }
                    if !emit(Case { big_endian: be, size, data_seed: 9, ops: vec![Op::ReadString(*ad), Op::WriteString(*ad, Some("s".into())), Op::ReadPointer(*ad), Op::WritePointer(*ad, Some(0)), Op::WriteLabel(*ad, "l".into()), Op::ReadLabels(*ad), Op::ReadCString(*ad), Op::DeleteLabel(*ad, 0), Op::DeleteString(*ad), Op::DeletePointer(*ad), Op::DeleteLabels(*ad)] }) {
                        return;
                    }
                }
            }
            for ad in &pal {
                for len in &pal {
                    if !emit(Case { big_endian: false, size, data_seed: 11, ops: vec![Op::ReadBytes(*ad, *len)] }) {
                        return;
                    }
                }
                for len in pal.iter().step_by(3) {
                    if !emit(Case { big_endian: true, size, data_seed: 13, ops: vec![Op::RSeek(*ad), Op::RReadBytes(*len)] }) {
                        return;
                    }
                }
                for n in 0..=(size as usize + 2) {
                    if !emit(Case { big_endian: false, size, data_seed: 15, ops: vec![Op::WriteBytes(*ad, vec![0xEE; n])] }) {
                        return;
                    }
                    if n % 3 == 0 && !emit(Case { big_endian: false, size, data_seed: 15, ops: vec![Op::WSeek(*ad), Op::WWriteBytes(vec![0xDD; n])] }) {
                        return;
                    }
                }
            }
        }
    }
    fn exhaustive_note(_tier: Tier) -> Option<String> {
        Some("every typed accessor (positional read, positional write, stream read x2, stream write x2) x sizes 0..=12 x every palette address (0..=size+8, 2^{16,31,32,33,63}+-3, usize::MAX-0..8) x both endiannesses; read_bytes x every palette address x every palette length; write_bytes of every length 0..=size+2 at every palette address; the annotation accessors at every palette address".into())
    }
    fn shrink(c: &Case) -> Vec<Case> {
        (0..c.ops.len())
            .filter(|_| c.ops.len() > 1)
            .map(|i| {
                let mut ops = c.ops.clone();
                ops.remove(i);
                Case { ops, ..c.clone() }
            })
            .collect()
    }

    fn run(case: &Case, cx: &mut Cx) {
        let endian = if case.big_endian { Endian::Big } else { Endian::Little };
        let mut a = BinArchive::new(endian);
        let size = case.size as usize;
        let init = Mix64(case.data_seed).bytes(size);
        // one archive in three (of those with >= 8 bytes) is grown to its size THROUGH A WRITER that afterwards fills it: an aligned insert of g bytes
        // in the middle, then stream writes on the same writer into the last byte and over the whole data region - all inside the data, so all must succeed
        let g = 4 * (1 + (case.data_seed as usize >> 4) % 3);
        if case.data_seed % 3 == 0 && size >= g + 4 {
            let p = 4 * ((case.data_seed as usize >> 8) % ((size - g) / 4));
            a.allocate_at_end(size - g);
            let r = cx.call(|| {
                let mut w = BinArchiveWriter::new(&mut a, p);
                w.allocate(g, case.data_seed & 8 != 0).map_err(|e| format!("allocate({g}) at cursor {p} of a {}-byte archive: {e}", size - g))?;
                w.seek(size - 1);
                w.write_u8(init[size - 1]).map_err(|e| format!("write_u8 at {} after the writer grew the archive from {} to {size} bytes: {e}", size - 1, size - g))?;
                if w.tell() != size || w.size() != size || w.length() != size {
                    return Err(format!("after growing to {size} bytes and writing the last byte: cursor {}, size() {}, length() {}", w.tell(), w.size(), w.length()));
                }
                w.seek(0);
                w.write_bytes(&init).map_err(|e| format!("write_bytes of {size} bytes at 0 after the writer grew the archive to {size} bytes: {e}"))?;
                Ok::<(), String>(())
            });
            match r {
                Some(Ok(())) => cx.label("grown-and-filled-through-one-writer"),
                Some(Err(e)) => {
                    cx.fail("in-range-stream-write-after-writer-allocate", e);
                    return;
                }
                None => return,
            }
        } else {
            a.allocate_at_end(size);
            if size > 0 {
                if let Err(e) = a.write_bytes(0, &init) {
                    cx.fail("setup", format!("write_bytes(0, {size} bytes) on an archive of size {size} failed: {e}"));
                    return;
                }
            }
        }
        let mut m = Model { be: case.big_endian, data: init, ..Default::default() };
        let ops = &case.ops;
        let mut i = 0;
        let mut kinds_seen = (false, false, false);
        while i < ops.len() {
            if ops[i].is_reader() {
                let j = (i..ops.len()).find(|k| !ops[*k].is_reader()).unwrap_or(ops.len());
                kinds_seen.1 = true;
                if !reader_run(cx, i, &ops[i..j], &a, &mut m) {
                    return;
                }
                i = j;
            } else if ops[i].is_writer() {
                let j = (i..ops.len()).find(|k| !ops[*k].is_writer()).unwrap_or(ops.len());
                kinds_seen.2 = true;
                if !writer_run(cx, i, &ops[i..j], &mut a, &mut m) {
                    return;
                }
                i = j;
            } else {
                kinds_seen.0 = true;
                let name = format!("step {i} {:?}", ops[i]);
                if !positional(cx, &name, &ops[i], &mut a, &mut m) {
                    return;
                }
                i += 1;
            }
            if !compare(cx, &format!("after step {}", i.saturating_sub(1)), &a, &m) {
                return;
            }
        }
        // c-strings cannot be read back before serialization. "Stream writers behave exactly like the positional calls at their
        // cursor": a twin archive with the same bytes receives every successful annotation call of this history as the positional
        // call at the address the model says the cursor had; both must then serialize to the same bytes. Only the comparison is
        // asserted - whether such an archive serializes at all (wild pointers) is not this property's business.
        if m.cstring_writes > 0 {
            let twin = panics::catch(|| {
                let mut b = BinArchive::new(endian);
                b.allocate_at_end(size);
                if size > 0 {
                    b.write_bytes(0, &m.data).map_err(|e| format!("write_bytes: {e}"))?;
                }
                for (k, op) in m.mirror.iter().enumerate() {
                    op.apply(&mut b).map_err(|e| format!("mirrored call {k} {op:?}: {e}"))?;
                }
                Ok::<_, String>(b)
            });
            match twin {
                Ok(Ok(b)) => {
                    let sa = panics::catch(|| a.serialize());
                    let sb = panics::catch(|| b.serialize());
                    if let (Ok(Ok(x)), Ok(Ok(y))) = (&sa, &sb) {
                        cx.label("c-string-history-compared-with-positional-twin");
                        if !cx.check(x == y, "stream-equals-positional", || {
                            let i = x.iter().zip(y.iter()).position(|(p, q)| p != q);
                            format!("after the history, the archive and its positional twin ({:?}) serialize differently (lengths {} / {}, first difference at {:?})", m.mirror, x.len(), y.len(), i)
                        }) {
                            return;
                        }
                    } else if sa.as_ref().map(|r| r.is_ok()).unwrap_or(false) != sb.as_ref().map(|r| r.is_ok()).unwrap_or(false) {
                        cx.fail("stream-equals-positional", format!("after the history only one of the archive and its positional twin ({:?}) serializes", m.mirror));
                        return;
                    }
                }
                Ok(Err(e)) => {
                    cx.fail("stream-equals-positional", format!("a call that succeeded in the history fails as a positional call on the twin: {e}"));
                    return;
                }
                Err(p) => {
                    cx.record_panic(&p);
                    return;
                }
            }
        }
        let interleaved = (kinds_seen.0 as u8 + kinds_seen.1 as u8 + kinds_seen.2 as u8) >= 2 && ops.len() >= 3;
        cx.label_if(interleaved, "stream/positional-interleaving>=3-calls");
        cx.label_if(case.big_endian, "big-endian");
        if interleaved || cx.labels.iter().any(|l| matches!(*l, "straddles-the-end" | "address>=2^31" | "big-endian-multibyte-write-read-back" | "stream-slice-straddles-the-end" | "address+length-overflows")) {
            cx.nontrivial();
        }
        cx.mix_bytes(&m.data);
    }
}
