//! C18 — asset-binary round trip preserves every field of every spec.
use crate::engine::prop::{Cx, Prop, Tier};
use crate::gen::strings::archive_string;
use crate::refimpl::refbin;
use mila::{AssetBinary, AssetSpec, BinArchive, Endian};
use proptest::prelude::*;
use serde::{Deserialize, Serialize};

pub struct C18;

pub const NSTR: usize = 34; // name + 33 flagged strings
pub const NTYPED: usize = 18;
/// index of the first extended string (clothing_sound) in the string list
const FIRST_EXT_STR: usize = 32;

#[derive(Clone, Debug, Hash, PartialEq, Eq, Serialize, Deserialize)]
pub struct SpecCase {
    /// name, conditional1, ..., footstep_sound, clothing_sound, voice
    pub strings: Vec<Option<String>>,
    /// hair_color, skin_color, weapon_trail_color, model_size, head_size, pupil_y, unk3..unk6, bitflags, unk7..unk13
    /// (colours as u32 of their 4 bytes, f32 by bit pattern); None = absent (default value)
    pub typed: Vec<Option<u32>>,
}

#[derive(Clone, Debug, Hash, Serialize, Deserialize)]
pub struct Case {
    pub flags: u32,
    pub specs: Vec<SpecCase>,
}

pub fn to_spec(c: &SpecCase) -> AssetSpec {
    let mut s = AssetSpec::new();
    let g = |i: usize| c.strings.get(i).cloned().flatten();
    s.name = g(0);
    s.conditional1 = g(1);
    s.conditional2 = g(2);
    s.body_model = g(3);
    s.body_texture = g(4);
    s.head_model = g(5);
    s.head_texture = g(6);
    s.hair_model = g(7);
    s.hair_texture = g(8);
    s.outer_clothing_model = g(9);
    s.outer_clothing_texture = g(10);
    s.underwear_model = g(11);
    s.underwear_texture = g(12);
    s.mount_model = g(13);
    s.mount_texture = g(14);
    s.mount_outer_clothing_model = g(15);
    s.mount_outer_clothing_texture = g(16);
    s.weapon_model_dual = g(17);
    s.weapon_model = g(18);
    s.skeleton = g(19);
    s.mount_skeleton = g(20);
    s.accessory1_model = g(21);
    s.accessory1_texture = g(22);
    s.accessory2_model = g(23);
    s.accessory2_texture = g(24);
    s.accessory3_model = g(25);
    s.accessory3_texture = g(26);
    s.attack_animation = g(27);
    s.attack_animation2 = g(28);
    s.visual_effect = g(29);
    s.hid = g(30);
    s.footstep_sound = g(31);
    s.clothing_sound = g(32);
    s.voice = g(33);
    let t = |i: usize| c.typed.get(i).cloned().flatten();
    let col = |v: Option<u32>| v.map(|x| x.to_le_bytes()).unwrap_or([0; 4]);
    let fl = |v: Option<u32>| v.map(f32::from_bits).unwrap_or(0.0);
    s.use_hair_color = t(0).is_some();
    s.hair_color = col(t(0));
    s.use_skin_color = t(1).is_some();
    s.skin_color = col(t(1));
    s.use_weapon_trail_color = t(2).is_some();
    s.weapon_trail_color = col(t(2));
    s.use_model_size = t(3).is_some();
    s.model_size = fl(t(3));
    s.use_head_size = t(4).is_some();
    s.head_size = fl(t(4));
    s.use_pupil_y = t(5).is_some();
    s.pupil_y = fl(t(5));
    s.use_unk3 = t(6).is_some();
    s.unk3 = t(6).unwrap_or(0);
    s.use_unk4 = t(7).is_some();
    s.unk4 = t(7).unwrap_or(0);
    s.use_unk5 = t(8).is_some();
    s.unk5 = t(8).unwrap_or(0);
    s.use_unk6 = t(9).is_some();
    s.unk6 = t(9).unwrap_or(0);
    s.use_bitflags = t(10).is_some();
    s.bitflags = col(t(10));
    s.use_unk7 = t(11).is_some();
    s.unk7 = t(11).unwrap_or(0);
    s.use_unk8 = t(12).is_some();
    s.unk8 = t(12).unwrap_or(0);
    s.use_unk9 = t(13).is_some();
    s.unk9 = t(13).unwrap_or(0);
    s.use_unk10 = t(14).is_some();
    s.unk10 = t(14).unwrap_or(0);
    s.use_unk11 = t(15).is_some();
    s.unk11 = t(15).unwrap_or(0);
    s.use_unk12 = t(16).is_some();
    s.unk12 = t(16).unwrap_or(0);
    s.use_unk13 = t(17).is_some();
    s.unk13 = t(17).unwrap_or(0);
    s
}

/// every field with its presence flag, f32 by bits; values of absent typed fields are reported as read
pub fn from_spec(s: &AssetSpec) -> (Vec<Option<String>>, Vec<(bool, u32)>) {
    let strings = vec![
        s.name.clone(),
        s.conditional1.clone(),
        s.conditional2.clone(),
        s.body_model.clone(),
        s.body_texture.clone(),
        s.head_model.clone(),
        s.head_texture.clone(),
        s.hair_model.clone(),
        s.hair_texture.clone(),
        s.outer_clothing_model.clone(),
        s.outer_clothing_texture.clone(),
        s.underwear_model.clone(),
        s.underwear_texture.clone(),
        s.mount_model.clone(),
        s.mount_texture.clone(),
        s.mount_outer_clothing_model.clone(),
        s.mount_outer_clothing_texture.clone(),
        s.weapon_model_dual.clone(),
        s.weapon_model.clone(),
        s.skeleton.clone(),
        s.mount_skeleton.clone(),
        s.accessory1_model.clone(),
        s.accessory1_texture.clone(),
        s.accessory2_model.clone(),
        s.accessory2_texture.clone(),
        s.accessory3_model.clone(),
        s.accessory3_texture.clone(),
        s.attack_animation.clone(),
        s.attack_animation2.clone(),
        s.visual_effect.clone(),
        s.hid.clone(),
        s.footstep_sound.clone(),
        s.clothing_sound.clone(),
        s.voice.clone(),
    ];
    let c = |b: [u8; 4]| u32::from_le_bytes(b);
    let typed = vec![
        (s.use_hair_color, c(s.hair_color)),
        (s.use_skin_color, c(s.skin_color)),
        (s.use_weapon_trail_color, c(s.weapon_trail_color)),
        (s.use_model_size, s.model_size.to_bits()),
        (s.use_head_size, s.head_size.to_bits()),
        (s.use_pupil_y, s.pupil_y.to_bits()),
        (s.use_unk3, s.unk3),
        (s.use_unk4, s.unk4),
        (s.use_unk5, s.unk5),
        (s.use_unk6, s.unk6),
        (s.use_bitflags, c(s.bitflags)),
        (s.use_unk7, s.unk7),
        (s.use_unk8, s.unk8),
        (s.use_unk9, s.unk9),
        (s.use_unk10, s.unk10),
        (s.use_unk11, s.unk11),
        (s.use_unk12, s.unk12),
        (s.use_unk13, s.unk13),
    ];
    (strings, typed)
}

const STR_NAMES: [&str; NSTR] = ["name", "conditional1", "conditional2", "body_model", "body_texture", "head_model", "head_texture", "hair_model", "hair_texture", "outer_clothing_model", "outer_clothing_texture", "underwear_model", "underwear_texture", "mount_model", "mount_texture", "mount_outer_clothing_model", "mount_outer_clothing_texture", "weapon_model_dual", "weapon_model", "skeleton", "mount_skeleton", "accessory1_model", "accessory1_texture", "accessory2_model", "accessory2_texture", "accessory3_model", "accessory3_texture", "attack_animation", "attack_animation2", "visual_effect", "hid", "footstep_sound", "clothing_sound", "voice"];
const TYPED_NAMES: [&str; NTYPED] = ["hair_color", "skin_color", "weapon_trail_color", "model_size", "head_size", "pupil_y", "unk3", "unk4", "unk5", "unk6", "bitflags", "unk7", "unk8", "unk9", "unk10", "unk11", "unk12", "unk13"];

impl SpecCase {
    fn extended(&self) -> bool {
        self.strings[FIRST_EXT_STR..].iter().any(|s| s.is_some()) || self.typed.iter().any(|t| t.is_some())
    }
    fn present(&self) -> usize {
        self.strings[1..].iter().filter(|s| s.is_some()).count() + self.typed.iter().filter(|t| t.is_some()).count()
    }
    fn size(&self) -> usize {
        (if self.extended() { 8 } else { 4 }) + 4 + 4 * self.present()
    }
    fn with(strs: &[usize], typed: &[usize], tag: u32) -> SpecCase {
        let mut s = SpecCase { strings: vec![None; NSTR], typed: vec![None; NTYPED] };
        for i in strs {
            s.strings[*i] = Some(format!("{}_{tag}", STR_NAMES[*i]));
        }
        for i in typed {
            s.typed[*i] = Some(0x1000_0000u32.wrapping_mul(*i as u32 + 1) ^ 0x00C0_FFEE ^ tag);
        }
        s
    }
}

fn spec_strategy() -> BoxedStrategy<SpecCase> {
    // a per-spec presence probability, then independent presence bits
    let value = prop_oneof![
        3 => any::<u32>(),
        1 => proptest::sample::select(vec![0u32, 1, 0x7FC0_0001, 0x7F80_0001, 0xFFC1_2345, 0x7F80_0000, 0x8000_0000, 0xFFFF_FFFF, 0x0102_0304, 0x3F80_0000]),
    ];
    (0u8..=10, proptest::collection::vec((0u8..10, archive_string()), NSTR), proptest::collection::vec((0u8..10, value), NTYPED), 0u8..4)
        .prop_map(|(density, strs, typed, mode)| {
            let mut s = SpecCase {
                strings: strs.into_iter().map(|(r, v)| if r < density { Some(v) } else { None }).collect(),
                typed: typed.into_iter().map(|(r, v)| if r < density { Some(v) } else { None }).collect(),
            };
            match mode {
                // no extended field at all (short form)
                0 => {
                    s.strings[FIRST_EXT_STR] = None;
                    s.strings[FIRST_EXT_STR + 1] = None;
                    s.typed = vec![None; NTYPED];
                }
                // extended fields only among the last flag byte (unk10..unk13)
                1 => {
                    s.strings[FIRST_EXT_STR] = None;
                    s.strings[FIRST_EXT_STR + 1] = None;
                    for t in s.typed[..14].iter_mut() {
                        *t = None;
                    }
                }
                _ => {}
            }
            s
        })
        .boxed()
}

impl Prop for C18 {
    type Case = Case;
    const ID: &'static str = "C18";
    fn rule() -> String {
        "An asset binary (any u32 header flags, 0..=5 specs; each of the 33 flagged strings, the name and the 18 typed fields has an independent presence bit, with a per-spec density 0..100% and planted shapes: short form only, extended fields only in \
         the last flag byte; values arbitrary: f32 by bit pattern incl. NaN payloads, colours any bytes, strings Shift-JIS-lossless incl. empty) is serialized, re-read with BinArchive::from_bytes + AssetBinary::from_archive and compared field by field incl. every presence flag \
         (f32 via to_bits; absent typed fields must read back as the default); re-serializing must give identical bytes; walking the data region with the independent reader, each record must occupy exactly the bytes its flags announce \
         ((4 or 8) + 4 + 4 per set bit), the short form must be used iff no extended field is present, and the region must end with the 4-byte terminator. Bounded-exhaustive: all-absent, all-present, each single field alone, each single field missing from all-present, each adjacent pair, \
         each as the middle spec of a 3-spec file and alone. 1 case in 400 has 257..=300 specs; 1 string in ~300 is up to 36 KiB long. The re-read value is then edited through its public fields (first set / spec moved to the end, meta, one clip name or the header flags changed) and must round-trip again (edited-value-round-trip). One case in three is preceded on the same thread by a serialization that fails (the same value with an unencodable name in its last spec; outcome ignored). Non-trivial: a spec with >= 1 extended field and another field after it, or an all-absent/name-only spec inside a list. Distinct = distinct case value."
            .into()
    }
    fn assumptions() -> Vec<String> {
        vec!["absent typed fields carry the default value (what a reader can reconstruct)".into(), "refbin gives the data region for the record walk".into()]
    }
    fn both_builds() -> bool {
        true
    }
    fn random_cases(tier: Tier) -> u64 {
        tier.pick(40_000, 1_500_000)
    }
    fn strategy(_tier: Tier) -> BoxedStrategy<Case> {
        // 1 case in 400 has hundreds of specs
        (any::<u32>(), prop_oneof![399 => proptest::collection::vec(spec_strategy(), 0..=5), 1 => proptest::collection::vec(spec_strategy(), 257..=300)]).prop_map(|(flags, specs)| Case { flags, specs }).boxed()
    }
    fn enumerate(_tier: Tier, shard: u64, nshards: u64, f: &mut dyn FnMut(Case) -> bool) {
        let all_s: Vec<usize> = (0..NSTR).collect();
        let all_t: Vec<usize> = (0..NTYPED).collect();
        let mut shapes: Vec<SpecCase> = vec![SpecCase::with(&[], &[], 0), SpecCase::with(&all_s, &all_t, 1), SpecCase::with(&[0], &[], 2)];
        for i in 0..NSTR + NTYPED {
            // single field alone (with and without a name)
            let (s, t): (Vec<usize>, Vec<usize>) = if i < NSTR { (vec![i], vec![]) } else { (vec![], vec![i - NSTR]) };
            shapes.push(SpecCase::with(&s, &t, 10 + i as u32));
            let mut s2 = s.clone();
            if !s2.contains(&0) {
                s2.push(0);
            }
            shapes.push(SpecCase::with(&s2, &t, 100 + i as u32));
            // missing from all-present
            let s3: Vec<usize> = all_s.iter().copied().filter(|x| i >= NSTR || *x != i).collect();
            let t3: Vec<usize> = all_t.iter().copied().filter(|x| i < NSTR || *x != i - NSTR).collect();
            shapes.push(SpecCase::with(&s3, &t3, 200 + i as u32));
            // adjacent pair
            let j = i + 1;
            if j < NSTR + NTYPED {
                let mut s4 = s.clone();
                let mut t4 = t.clone();
                if j < NSTR {
                    s4.push(j)
                } else {
                    t4.push(j - NSTR)
                }
                shapes.push(SpecCase::with(&s4, &t4, 300 + i as u32));
            }
        }
        let first = SpecCase::with(&[0, 3], &[], 7);
        let last = SpecCase::with(&[0, 33], &[17], 8);
        let mut idx = 0u64;
        for (n, sh) in shapes.iter().enumerate() {
            for variant in 0..2 {
                let mine = idx % nshards == shard;
                idx += 1;
                if !mine {
                    continue;
                }
                let specs = if variant == 0 { vec![sh.clone()] } else { vec![first.clone(), sh.clone(), last.clone()] };
                if !f(Case { flags: 0xA55A_0000 ^ n as u32, specs }) {
                    return;
                }
            }
        }
        if idx % nshards == shard {
            let _ = f(Case { flags: 0, specs: vec![] });
        }
    }
    fn exhaustive_note(_tier: Tier) -> Option<String> {
        Some("per-field shapes over the 34 strings + 18 typed fields: all-absent, all-present, name only, each single field alone (with/without name), each single field missing from all-present, each adjacent pair; each shape alone and as the middle spec of a 3-spec file; the file without specs".into())
    }

    fn run(case: &Case, cx: &mut Cx) {
        let mut ab = AssetBinary::new();
        ab.flags = case.flags;
        ab.specs = case.specs.iter().map(to_spec).collect();
        // one case in three is preceded, on this thread, by the serialization of the same value with one unencodable name in its LAST spec
        // (fails after the other records were laid out; outcome ignored)
        if (case.flags as usize + case.specs.len()) % 3 == 0 && !case.specs.is_empty() {
            let mut bad = AssetBinary::new();
            bad.flags = case.flags;
            bad.specs = case.specs.iter().map(to_spec).collect();
            if let Some(last) = bad.specs.last_mut() {
                last.name = Some(super::prior::UNENCODABLE.to_string());
            }
            super::prior::quiet(|| bad.serialize().is_ok());
            cx.label("after-a-failed-serialize-on-this-thread");
        }
        let bytes = match cx.call(|| ab.serialize()) {
            Some(Ok(b)) => b,
            Some(Err(e)) => {
                cx.fail("serialize-ok", format!("serialize failed: {e}"));
                return;
            }
            None => return,
        };
        let back = match cx.call(|| BinArchive::from_bytes(&bytes, Endian::Little).and_then(|ar| AssetBinary::from_archive(&ar))) {
            Some(Ok(b)) => b,
            Some(Err(e)) => {
                cx.fail("reparse-ok", format!("re-reading the serialized file failed: {e}"));
                return;
            }
            None => return,
        };
        if !cx.check(back.flags == case.flags, "header-flags", || format!("flags {:#x}, expected {:#x}", back.flags, case.flags)) {
            return;
        }
        if !cx.check(back.specs.len() == case.specs.len(), "spec-count", || {
            format!("{} specs re-read, {} written (names re-read: {:?})", back.specs.len(), case.specs.len(), back.specs.iter().map(|s| s.name.clone()).collect::<Vec<_>>())
        }) {
            return;
        }
        for (i, (g, w)) in back.specs.iter().zip(case.specs.iter()).enumerate() {
            let (gs, gt) = from_spec(g);
            for k in 0..NSTR {
                if !cx.check(gs[k] == w.strings[k], "string-fields", || format!("spec {i}: {} is {:?}, expected {:?}", STR_NAMES[k], gs[k], w.strings[k])) {
                    return;
                }
            }
            for k in 0..NTYPED {
                let want = (w.typed[k].is_some(), w.typed[k].unwrap_or(0));
                if !cx.check(gt[k] == want, "typed-fields", || format!("spec {i}: {} is (present={}, {:#010x}), expected (present={}, {:#010x})", TYPED_NAMES[k], gt[k].0, gt[k].1, want.0, want.1)) {
                    return;
                }
            }
        }
        match cx.call(|| back.serialize()) {
            Some(Ok(b2)) => {
                if !cx.check(b2 == bytes, "reserialize-identical", || format!("re-serializing the re-read value gives {} bytes, first serialization {} bytes", b2.len(), bytes.len())) {
                    return;
                }
            }
            Some(Err(e)) => {
                cx.fail("reserialize-identical", format!("re-serializing failed: {e}"));
                return;
            }
            None => return,
        }
        // the re-read value, edited through its public fields, is a value like any other: nothing remembered from the parse may leak
        // into its serialization (header flags changed, first spec moved to the end)
        {
            let mut edited = back;
            edited.flags = case.flags ^ 0x0101;
            if !edited.specs.is_empty() {
                let s = edited.specs.remove(0);
                edited.specs.push(s);
            }
            let again = match cx.call(|| edited.serialize().and_then(|b| BinArchive::from_bytes(&b, Endian::Little)).and_then(|ar| AssetBinary::from_archive(&ar))) {
                Some(Ok(b)) => b,
                Some(Err(e)) => {
                    cx.fail("edited-value-round-trip", format!("serializing and re-reading the edited re-read value failed: {e}"));
                    return;
                }
                None => return,
            };
            let same = again.flags == edited.flags && again.specs.len() == edited.specs.len() && again.specs.iter().zip(edited.specs.iter()).all(|(g, w)| from_spec(g) == from_spec(w));
            if !cx.check(same, "edited-value-round-trip", || {
                format!("after moving the first spec to the end and changing the flags of the re-read value, serialize + re-read gives flags {:#x} (expected {:#x}) and names {:?} (expected {:?})", again.flags, edited.flags, again.specs.iter().map(|s| s.name.clone()).collect::<Vec<_>>(), edited.specs.iter().map(|s| s.name.clone()).collect::<Vec<_>>())
            }) {
                return;
            }
        }
        // record walk over the data region
        let img = match refbin::parse(&bytes, false) {
            Ok(i) => i,
            Err(e) => {
                cx.fail("image-well-formed", e);
                return;
            }
        };
        if !cx.check(img.defects.is_empty(), "image-well-formed", || format!("{:?}", img.defects)) {
            return;
        }
        let d = &img.data;
        let mut off = 4usize;
        for (i, w) in case.specs.iter().enumerate() {
            if !cx.check(off + 4 <= d.len(), "record-sizes", || format!("spec {i}: data region ends at {} before the record at {off}", d.len())) {
                return;
            }
            let ext = d[off] & 1 == 1;
            if !cx.check(ext == w.extended(), "short-form-iff-no-extended-field", || format!("spec {i}: record uses the {} form, extended fields present: {}", if ext { "extended (8 flag bytes)" } else { "short (4 flag bytes)" }, w.extended())) {
                return;
            }
            let nflag = if ext { 8 } else { 4 };
            if !cx.check(off + nflag <= d.len(), "record-sizes", || format!("spec {i}: flags run past the data region")) {
                return;
            }
            let bits: u32 = d[off..off + nflag].iter().map(|b| b.count_ones()).sum::<u32>() - ext as u32;
            let announced = nflag + 4 + 4 * bits as usize;
            if !cx.check(announced == w.size(), "record-sizes", || format!("spec {i}: flags {:02x?} announce {announced} bytes, the spec's fields need {}", &d[off..off + nflag], w.size())) {
                return;
            }
            off += announced;
        }
        if !cx.check(off + 4 == d.len() && d[off..].iter().all(|b| *b == 0), "record-sizes", || format!("records end at {off}, data region has {} bytes (expected records + 4-byte zero terminator)", d.len())) {
            return;
        }
        let ext_then_more = case.specs.iter().any(|s| {
            let first_ext = s.strings[FIRST_EXT_STR..].iter().position(|x| x.is_some()).map(|p| p).or_else(|| s.typed.iter().position(|t| t.is_some()).map(|p| p + 2));
            match first_ext {
                Some(p) => s.strings[FIRST_EXT_STR..].iter().map(|x| x.is_some()).chain(s.typed.iter().map(|t| t.is_some())).skip(p + 1).any(|b| b),
                None => false,
            }
        });
        let blank_inside = case.specs.len() >= 2 && case.specs.iter().any(|s| s.present() == 0);
        if ext_then_more || blank_inside {
            cx.nontrivial();
        }
        cx.label_if(ext_then_more, "extended-field-followed-by-another");
        cx.label_if(blank_inside, "all-absent-or-name-only-spec-in-a-list");
        cx.label_if(case.specs.iter().any(|s| !s.extended()), "short-form");
        cx.label_if(case.specs.len() > 255, ">255-specs");
        cx.label_if(case.specs.iter().any(|s| s.extended()), "extended-form");
        cx.label_if(case.specs.iter().any(|s| s.extended() && s.strings[FIRST_EXT_STR..].iter().all(|x| x.is_none()) && s.typed[..14].iter().all(|t| t.is_none())), "extended-only-in-last-flag-byte");
        cx.label_if(case.specs.iter().any(|s| s.typed[3..6].iter().any(|t| matches!(t, Some(b) if f32::from_bits(*b).is_nan()))), "nan-payload");
    }
}
