//! C19 — pixel decoding matches the hardware formats.
use crate::engine::prop::{Cx, Mix64, Prop, Tier};
use crate::gen::strings::sjis_encode;
use crate::refimpl::reftex::{self, build_ctpk, build_tpl, Fmt, Tex, TplImage, FORMATS};
use mila::{ctpk, ColorFormat};
use proptest::prelude::*;
use serde::{Deserialize, Serialize};

pub struct C19;

#[derive(Clone, Debug, Hash, Serialize, Deserialize)]
pub enum Fill {
    Random(u64),
    /// every texel value = base + pixel index (walks all values of 8/16-bit formats)
    Counter(u32),
    Const(u8),
    /// random payload in which every other 8x8 tile (resp. 4x4 block) is all zero / all 0xFF
    Tiles(u64),
    /// ETC1 planes: block k of the texture enumerates a sub-space (see `etc_plane_block`)
    EtcPlane(u8),
}

#[derive(Clone, Debug, Hash, Serialize, Deserialize)]
pub enum Case {
    /// 3DS texture through a single-texture CTPK (and mila::decode for ETC1 formats)
    Tex { fmt: u8, wlog: u8, hlog: u8, fill: Fill },
    /// ColorFormat::RGB5A3.decode over 4096 consecutive values starting at chunk*4096
    Rgb5a3 { chunk: u8 },
    /// single-image TPL: CI8 indices + RGB5A3 palette, any size 1..=64
    Tpl { w: u8, h: u8, seed: u64, palette_len: u16 },
}

/// block k of an enumerated ETC1 plane (colour word)
fn etc_plane_block(plane: u8, k: usize, r: &mut Mix64) -> u64 {
    let selectors = r.next() & 0xFFFF_FFFF;
    match plane % 5 {
        // differential, every (base 0..31, delta -4..3) pair with an in-range sum where possible: same pair on all channels
        0 => {
            let base = (k % 32) as u64;
            let delta = ((k / 32) % 8) as u64;
            let byte = base << 3 | delta;
            let tables = r.next() & 0x3F;
            byte << 56 | byte << 48 | byte << 40 | tables << 34 | 1 << 33 | ((k / 256) as u64 & 1) << 32 | selectors
        }
        // differential, channels rotated: R/G/B get different pairs
        1 => {
            let b = |i: usize| ((((k + 11 * i) % 32) as u64) << 3) | (((k / 32 + i) % 8) as u64);
            let tables = r.next() & 0x3F;
            b(0) << 56 | b(1) << 48 | b(2) << 40 | tables << 34 | 1 << 33 | (k as u64 & 1) << 32 | selectors
        }
        // individual mode: every pair of 4-bit values
        2 => {
            let byte = (k % 256) as u64;
            let tables = r.next() & 0x3F;
            byte << 56 | (byte ^ 0x5A) << 48 | (!byte & 0xFF) << 40 | tables << 34 | ((k / 256) as u64 & 1) << 32 | selectors
        }
        // every table pair x flip, bases near both clamps, all four selector values on every position over the plane
        3 => {
            let t1 = (k % 8) as u64;
            let t2 = ((k / 8) % 8) as u64;
            let flip = ((k / 64) % 2) as u64;
            let base: u64 = [0x00, 0xFF, 0x08, 0xF7][(k / 128) % 4];
            let sel = match (k / 512) % 4 {
                0 => 0x0000_0000u64,
                1 => 0x0000_FFFF,
                2 => 0xFFFF_0000,
                _ => 0xFFFF_FFFF,
            } ^ (selectors & if k % 3 == 0 { 0xFFFF_FFFF } else { 0 });
            base << 56 | base << 48 | base << 40 | t1 << 37 | t2 << 34 | flip << 32 | sel
        }
        // one distinguishing selector per position: a single texel differs from the rest
        _ => {
            let pos = (k % 16) as u64;
            let kind = (k / 16) % 4; // which plane bit is set for that texel
            let sel = match kind {
                0 => 1u64 << pos,
                1 => 1u64 << (16 + pos),
                2 => (1u64 << pos) | (1u64 << (16 + pos)),
                _ => !((1u64 << pos) | (1u64 << (16 + pos))) & 0xFFFF_FFFF,
            };
            let tables = ((k / 64) % 64) as u64;
            0x84u64 << 56 | 0x7Bu64 << 48 | 0x80u64 << 40 | tables << 34 | ((k / 4096) as u64 & 1) << 33 | ((k / 8192) as u64 & 1) << 32 | sel
        }
    }
}

pub fn payload_for(fmt: Fmt, w: usize, h: usize, fill: &Fill) -> Vec<u8> {
    let len = fmt.payload_len(w, h);
    match fill {
        Fill::Random(s) => {
            let mut v = Mix64(*s).bytes(len);
            if fmt == Fmt::Etc1A4 && s % 3 == 0 {
                // every third random ETC1A4 texture: some blocks fully transparent / fully opaque
                for (k, b) in v.chunks_mut(16).enumerate() {
                    if k % 4 == 1 {
                        b[..8].fill(0);
                    } else if k % 4 == 3 {
                        b[..8].fill(0xFF);
                    }
                }
            }
            v
        }
        Fill::Const(b) => vec![*b; len],
        Fill::Tiles(s) => {
            let mut v = Mix64(*s).bytes(len);
            let tile = (64 * fmt.bpp() / 8).max(1);
            for (k, t) in v.chunks_mut(tile).enumerate() {
                match (k as u64 + *s) % 4 {
                    1 => t.fill(0),
                    3 => t.fill(0xFF),
                    _ => {}
                }
            }
            v
        }
        Fill::Counter(base) => {
            let bytes = fmt.bpp() / 8;
            let mut v = Vec::with_capacity(len);
            if bytes == 0 {
                return Mix64(*base as u64).bytes(len);
            }
            for i in 0..(w * h) {
                let x = base.wrapping_add(i as u32);
                let x = if bytes == 4 { x.wrapping_mul(0x0101_0101) ^ (x << 7) } else { x };
                v.extend_from_slice(&x.to_le_bytes()[..bytes]);
            }
            v
        }
        Fill::EtcPlane(p) => {
            let mut r = Mix64(0xE7C1 + *p as u64);
            let nblocks = w * h / 16;
            let mut v = Vec::with_capacity(len);
            for k in 0..nblocks {
                if fmt == Fmt::Etc1A4 {
                    // alpha plane: nibble (position) = position + k, walks every nibble value at every position
                    let mut a: u64 = 0;
                    for pos in 0..16u64 {
                        a |= ((pos + k as u64) & 0xF) << (pos * 4);
                    }
                    // whole-block constants too: fully transparent and fully opaque blocks over arbitrary colour words
                    if k % 5 == 3 {
                        a = 0;
                    } else if k % 7 == 5 {
                        a = u64::MAX;
                    }
                    v.extend_from_slice(&a.to_le_bytes());
                }
                v.extend_from_slice(&etc_plane_block(*p, k, &mut r).to_le_bytes());
            }
            v
        }
    }
}

impl Prop for C19 {
    type Case = Case;
    const ID: &'static str = "C19";
    fn rule() -> String {
        "Formats {RGBA8, RGBA5551, RGB565, RGBA4, LA8, L8, A8, ETC1, ETC1A4} x width, height in {8,16,32,64,128}^2 (plus a few 256x256 / 512x128 / 128x512 textures: the statement says 'from 8 up') with a payload of exactly the required size, wrapped in a single-texture CTPK and read with ctpk::read (ETC1/ETC1A4 also through mila::decode). \
         Payloads: random; constant 0x00 / 0xFF; random with all-zero / all-ones tiles; exhaustive counters (for the 16-bit formats all 65536 values = four 128x128 textures, for the 8-bit formats all 256); ETC1 planes enumerating every differential (base, delta) pair, every individual 4-bit pair, every table pair x flip at bases near both clamps with all selector values, \
         one distinguishing selector per texel position, every alpha nibble at every position, and fully transparent / fully opaque alpha planes over arbitrary colour words. Oracle: per-pixel reference decoders written from the format definitions: pixel (x, y) comes from its Z-order position in its 8x8 tile (4x4 ETC block, 2x2 blocks per tile); ETC1 colours exactly per the Khronos rules for blocks whose differential sums stay in 0..=31 \
         (others: no colour oracle, but no panic and identical output in both builds); every other channel within one quantisation step of the linear expansion of its source bits; alpha 255 where the format has none; A8 colour merely constant; output length 4*w*h, dimensions echoed. \
         GameCube: ColorFormat::RGB5A3.decode over all 65536 values; Tpl::extract_textures on single-image CI8 TPLs with RGB5A3 palettes for sizes 1..=64 x 1..=64 (every width x a few heights and vice versa in the enumerated tier), 8x4 blocks, cropped to the stated size. Both builds, per-case output digests compared between them. \
         TPL palettes: 1..=256 entries, 1 in 13 with 257..=1 024 (only the first 256 are reachable by an 8-bit index). One small texture in three is decoded after, on the same thread, the same container was read once and a CGFX file with a half-length payload in another format of the same bits per pixel was read (fails part-way; outcomes ignored). Non-trivial: the payload is not constant. Distinct = distinct case value."
            .into()
    }
    fn assumptions() -> Vec<String> {
        vec![
            "reftex (harness/src/refimpl/reftex.rs) transcribes the PICA200 texel layouts, the Khronos ETC1 rules with the 3DS block order, RGB5A3 and the CI8 block layout".into(),
            "ETC1 blocks whose base+delta leaves 0..=31 have no colour oracle (interpretation 20); A8 colour only has to be constant (interpretation 19)".into(),
        ]
    }
    fn both_builds() -> bool {
        true
    }
    fn cross_build() -> bool {
        true
    }
    fn random_cases(tier: Tier) -> u64 {
        tier.pick(20_000, 3_000_000)
    }
    fn strategy(_tier: Tier) -> BoxedStrategy<Case> {
        prop_oneof![
            8 => (0u8..9, prop_oneof![4 => 3u8..=5, 1 => 6u8..=7], prop_oneof![4 => 3u8..=5, 1 => 6u8..=7], any::<u64>()).prop_map(|(fmt, wlog, hlog, s)| Case::Tex { fmt, wlog, hlog, fill: Fill::Random(s) }),
            1 => (0u8..9, 3u8..=5, 3u8..=5, prop_oneof![Just(0u8), Just(0xFF), any::<u8>()]).prop_map(|(fmt, wlog, hlog, b)| Case::Tex { fmt, wlog, hlog, fill: Fill::Const(b) }),
            2 => (0u8..9, 3u8..=6, 3u8..=6, any::<u64>()).prop_map(|(fmt, wlog, hlog, s)| Case::Tex { fmt, wlog, hlog, fill: Fill::Tiles(s) }),
            3 => (1u8..=64, 1u8..=64, any::<u64>(), prop_oneof![4 => Just(256u16), 8 => 1u16..=256, 1 => 257u16..=1024]).prop_map(|(w, h, seed, palette_len)| Case::Tpl { w, h, seed, palette_len }),
        ]
        .boxed()
    }
    fn enumerate(tier: Tier, shard: u64, nshards: u64, f: &mut dyn FnMut(Case) -> bool) {
        let mut cases: Vec<Case> = Vec::new();
        // 16-bit formats: all 65536 values
        for fmt in [1u8, 2, 3, 4] {
            for quarter in 0..4u32 {
                cases.push(Case::Tex { fmt, wlog: 7, hlog: 7, fill: Fill::Counter(quarter * 16384) });
            }
        }
        // 8-bit formats and RGBA8 counters
        for fmt in [0u8, 5, 6] {
            cases.push(Case::Tex { fmt, wlog: 4, hlog: 4, fill: Fill::Counter(0) });
            cases.push(Case::Tex { fmt, wlog: 5, hlog: 3, fill: Fill::Counter(0x80) });
        }
        // ETC planes (128x128 = 1024 blocks; the position plane needs 16384 blocks => 4 textures of 128x128 cover 4096 blocks each)
        for fmt in [7u8, 8] {
            for plane in 0..5u8 {
                cases.push(Case::Tex { fmt, wlog: 7, hlog: 7, fill: Fill::EtcPlane(plane) });
                cases.push(Case::Tex { fmt, wlog: 6, hlog: 5, fill: Fill::EtcPlane(plane) });
            }
        }
        // every format x every size combination once (random payload)
        for fmt in 0u8..9 {
            for wlog in 3u8..=7 {
                for hlog in 3u8..=7 {
                    if tier == Tier::Quick && wlog + hlog > 12 {
                        continue;
                    }
                    cases.push(Case::Tex { fmt, wlog, hlog, fill: Fill::Random(fmt as u64 * 100 + wlog as u64 * 10 + hlog as u64) });
                }
            }
        }
        // constant payloads and payloads with all-zero / all-ones tiles, every format
        for fmt in 0u8..9 {
            for fill in [Fill::Const(0), Fill::Const(0xFF), Fill::Tiles(fmt as u64), Fill::Tiles(fmt as u64 + 1)] {
                cases.push(Case::Tex { fmt, wlog: 4, hlog: 3, fill: fill.clone() });
                cases.push(Case::Tex { fmt, wlog: 3, hlog: 5, fill });
            }
        }
        // power-of-two sides beyond 128 (65 536 pixels and more)
        for (fmt, wlog, hlog) in [(5u8, 8u8, 8u8), (5, 9, 7), (1, 8, 8), (7, 8, 8), (0, 7, 9)] {
            cases.push(Case::Tex { fmt, wlog, hlog, fill: Fill::Random(0x256 + fmt as u64) });
        }
        for chunk in 0..16u8 {
            cases.push(Case::Rgb5a3 { chunk });
        }
        // TPL: every width with a few heights and vice versa
        for w in 1u8..=64 {
            for h in [1u8, 3, 4, 5, 8, 33, 64] {
                cases.push(Case::Tpl { w, h, seed: w as u64 * 64 + h as u64, palette_len: 256 });
                if tier == Tier::Thorough || w % 4 == 1 {
                    cases.push(Case::Tpl { w: h, h: w, seed: w as u64 * 7 + h as u64, palette_len: if w % 2 == 0 { 256 } else { 17 } });
                }
            }
        }
        for (i, c) in cases.into_iter().enumerate() {
            if i as u64 % nshards == shard && !f(c) {
                return;
            }
        }
    }
    fn exhaustive_note(_tier: Tier) -> Option<String> {
        Some("all 65536 values of each 16-bit format (RGBA5551, RGB565, RGBA4, LA8), all 256 of the 8-bit formats; ETC1/ETC1A4 planes: every differential (base, delta) pair, every individual pair, every table pair x flip near both clamps, a distinguishing selector at each of the 16 texel positions, every alpha nibble at every position; every format x size combination; RGB5A3 all 65536 values; CI8 TPLs for every width/height 1..=64 against 7 other dimensions".into())
    }

    fn run(case: &Case, cx: &mut Cx) {
        match case {
            Case::Tex { fmt, wlog, hlog, fill } => {
                let fmt = FORMATS[*fmt as usize % 9];
                let (w, h) = (1usize << (*wlog).clamp(3, 9), 1usize << (*hlog).clamp(3, 9));
                let payload = payload_for(fmt, w, h, fill);
                let tex = Tex { name: "tex".into(), w, h, fmt, payload: payload.clone(), mip_tail: Vec::new() };
                let file = build_ctpk(&[tex], 0, &|s| sjis_encode(s).unwrap_or_default());
                // prior history on this thread for one small texture in three (outcomes ignored): the same container is read once, then a CGFX file
                // is read whose only texture has another format (same bits per pixel where one exists) and a payload that stops half-way
                if crate::engine::prop::fnv(&payload) % 3 == 0 && w * h <= 128 * 128 {
                    let me = FORMATS.iter().position(|f| *f == fmt).unwrap_or(0);
                    let other = (1..9).map(|k| FORMATS[(me + k) % 9]).find(|f| f.bpp() == fmt.bpp()).unwrap_or(FORMATS[(me + 1) % 9]);
                    let half: Vec<u8> = payload.iter().cycle().take(other.payload_len(w, h) / 2).cloned().collect();
                    let broken = reftex::build_cgfx(&[Tex { name: "t".into(), w, h, fmt: other, payload: half, mip_tail: Vec::new() }], 0);
                    super::prior::quiet(|| ctpk::read(&file.bytes).is_ok());
                    super::prior::quiet(|| mila::cgfx::read(&broken.bytes).is_ok());
                    cx.label("after-a-failed-decode-in-another-format-on-this-thread");
                }
                let out = match cx.call(|| ctpk::read(&file.bytes)) {
                    Some(Ok(t)) => t,
                    Some(Err(e)) => {
                        cx.fail("decode-ok", format!("{} {w}x{h}: ctpk::read failed on a single-texture container with a payload of exactly the required size: {e}", fmt.name()));
                        return;
                    }
                    None => return,
                };
                if !cx.check(out.len() == 1 && out[0].width == w && out[0].height == h, "dimensions-echoed", || format!("{} {w}x{h}: {} textures, dimensions {:?}", fmt.name(), out.len(), out.first().map(|t| (t.width, t.height)))) {
                    return;
                }
                cx.mix_bytes(&out[0].pixel_data);
                if let Err(e) = reftex::check_image(fmt, &payload, w, h, &out[0].pixel_data) {
                    cx.fail(if fmt.is_etc() { "etc1-rules" } else { "channel-layout-and-expansion" }, e);
                    return;
                }
                if fmt.is_etc() {
                    // the public ETC1 entry point must agree with the container path
                    match cx.call(|| mila::decode(&payload, w, h, fmt == Fmt::Etc1A4)) {
                        Some(Ok(d)) => {
                            if !cx.check(d == out[0].pixel_data, "etc1-entry-points-agree", || format!("{} {w}x{h}: mila::decode differs from the data returned through ctpk::read", fmt.name())) {
                                return;
                            }
                        }
                        Some(Err(e)) => {
                            cx.fail("etc1-entry-points-agree", format!("mila::decode failed: {e}"));
                            return;
                        }
                        None => return,
                    }
                    // labels on the block population
                    let bs = if fmt == Fmt::Etc1A4 { 16 } else { 8 };
                    let (mut neg, mut flip, mut oor, mut indiv) = (false, false, false, false);
                    for b in payload.chunks(bs) {
                        let word = u64::from_le_bytes(b[bs - 8..].try_into().unwrap());
                        if (word >> 33) & 1 == 1 {
                            neg |= [56, 48, 40].iter().any(|s| (word >> s) & 4 != 0);
                            oor |= reftex::etc1_texel(word, 0, 0).is_none();
                        } else {
                            indiv = true;
                        }
                        flip |= (word >> 32) & 1 == 1;
                    }
                    cx.label_if(neg, "etc1:differential-negative-delta");
                    cx.label_if(flip, "etc1:flip");
                    cx.label_if(oor, "etc1:out-of-range-sum(no colour oracle)");
                    cx.label_if(indiv, "etc1:individual-mode");
                }
                if payload.windows(2).any(|p| p[0] != p[1]) {
                    cx.nontrivial();
                }
                cx.label(fmt.name());
                cx.label_if(w != h, "non-square");
                cx.label_if(w >= 64 || h >= 64, "side>=64");
            }
            Case::Rgb5a3 { chunk } => {
                let start = (*chunk as u32 % 16) * 4096;
                let mut data = Vec::with_capacity(8192);
                for v in start..start + 4096 {
                    data.extend_from_slice(&(v as u16).to_be_bytes());
                }
                let out = match cx.call(|| ColorFormat::RGB5A3.decode(&data)) {
                    Some(Ok(o)) => o,
                    Some(Err(e)) => {
                        cx.fail("decode-ok", format!("ColorFormat::RGB5A3.decode failed: {e}"));
                        return;
                    }
                    None => return,
                };
                cx.mix_bytes(&out);
                if !cx.check(out.len() == 4096 * 4, "rgb5a3", || format!("output {} bytes for 4096 values", out.len())) {
                    return;
                }
                for i in 0..4096usize {
                    let v = (start as usize + i) as u16;
                    let want = reftex::rgb5a3(v);
                    for c in 0..4 {
                        if !want[c].admits(out[i * 4 + c]) {
                            cx.fail("rgb5a3", format!("RGB5A3 value {v:#06x}: channel {} is {}, the format definition gives {:?}", ["R", "G", "B", "A"][c], out[i * 4 + c], want[c]));
                            return;
                        }
                    }
                }
                cx.nontrivial();
                cx.label("RGB5A3-all-values");
            }
            Case::Tpl { w, h, seed, palette_len } => {
                let (w, h) = ((*w).clamp(1, 64) as usize, (*h).clamp(1, 64) as usize);
                // (more than 256 entries: the count field is 16 bits wide, an 8-bit index reaches the first 256)
                let plen = (*palette_len).clamp(1, 1024) as usize;
                cx.label_if(plen > 256, "TPL-palette>256-entries");
                let mut r = Mix64(*seed);
                let palette: Vec<u16> = (0..plen).map(|_| r.next() as u16).collect();
                let indices: Vec<u8> = (0..reftex::ci8_len(w, h)).map(|_| (r.next() % plen.min(256) as u64) as u8).collect();
                let file = build_tpl(&[TplImage { w, h, indices: indices.clone(), palette: palette.clone() }], 0);
                let out = match cx.call(|| mila::tpl::Tpl::extract_textures(&file.bytes)) {
                    Some(Ok(t)) => t,
                    Some(Err(e)) => {
                        cx.fail("decode-ok", format!("CI8 {w}x{h}: Tpl::extract_textures failed on a conforming single-image file: {e}"));
                        return;
                    }
                    None => return,
                };
                if !cx.check(out.len() == 1 && out[0].width == w && out[0].height == h, "dimensions-echoed", || format!("CI8 {w}x{h}: {} textures, dimensions {:?}", out.len(), out.first().map(|t| (t.width, t.height)))) {
                    return;
                }
                cx.mix_bytes(&out[0].pixel_data);
                let px = &out[0].pixel_data;
                if !cx.check(px.len() == 4 * w * h, "cropped-to-stated-dimensions", || format!("CI8 {w}x{h}: output has {} bytes, expected 4*w*h = {}", px.len(), 4 * w * h)) {
                    return;
                }
                for y in 0..h {
                    for x in 0..w {
                        let idx = indices[reftex::ci8_index(w, x, y)] as usize;
                        let want = reftex::rgb5a3(palette[idx]);
                        for c in 0..4 {
                            if !want[c].admits(px[(y * w + x) * 4 + c]) {
                                cx.fail("palette-image-8x4-blocks", format!("CI8 {w}x{h}: pixel ({x},{y}) channel {c} is {}, palette entry {idx} ({:#06x}) gives {:?}", px[(y * w + x) * 4 + c], palette[idx], want[c]));
                                return;
                            }
                        }
                    }
                }
                cx.nontrivial();
                cx.label("CI8-TPL");
                cx.label_if(w % 8 != 0 || h % 4 != 0, "CI8:size-not-multiple-of-block");
                cx.label_if(w % 8 == 0 && h % 4 != 0, "CI8:width-aligned-height-not");
            }
        }
    }
}
