//! C17 — animation-set file round trip.
use crate::engine::prop::{Cx, Prop, Tier};
use crate::gen::strings::{archive_string, sjis_pool_string};
use crate::refimpl::refbin;
use mila::{ASetFile, BinArchive, Endian};
use proptest::prelude::*;
use serde::{Deserialize, Serialize};

pub struct C17;

#[derive(Clone, Debug, Hash, Serialize, Deserialize)]
pub struct SetSpec {
    pub label: Option<String>,
    /// present slots: (slot 0..256, name); later duplicates of a slot are ignored
    pub slots: Vec<(u16, String)>,
}

#[derive(Clone, Debug, Hash, Serialize, Deserialize)]
pub struct Case {
    pub meta: Option<String>,
    /// present clip names: (index 0..257, name)
    pub clips: Vec<(u16, String)>,
    pub sets: Vec<SetSpec>,
    /// additionally, this many fully populated sets (256 names each) appended after `sets` (large files: > 65535 strings)
    #[serde(default)]
    pub dense: u16,
}

pub fn to_aset(c: &Case) -> ASetFile {
    let mut a = ASetFile::new(c.meta.clone());
    a.anim_clip_table = vec![None; 257];
    for (i, n) in &c.clips {
        let i = *i as usize % 257;
        if a.anim_clip_table[i].is_none() {
            a.anim_clip_table[i] = Some(n.clone());
        }
    }
    for s in &c.sets {
        let mut v: Vec<Option<String>> = vec![None; 257];
        v[0] = s.label.clone();
        for (slot, n) in &s.slots {
            let i = 1 + (*slot as usize % 256);
            if v[i].is_none() {
                v[i] = Some(n.clone());
            }
        }
        a.sets.push(v);
    }
    for d in 0..c.dense as usize {
        let mut v: Vec<Option<String>> = Vec::with_capacity(257);
        v.push(if d % 2 == 0 { Some(format!("D{d}")) } else { None });
        for slot in 0..256 {
            v.push(Some(format!("n{d}_{slot}")));
        }
        a.sets.push(v);
    }
    a
}

fn slots_strategy() -> BoxedStrategy<Vec<(u16, String)>> {
    let name = || prop_oneof![3 => archive_string(), 1 => Just(String::new())];
    prop_oneof![
        1 => Just(Vec::new()),
        // single slot
        2 => (0u16..256, name()).prop_map(|(s, n)| vec![(s, n)]),
        // only bit 31 of some groups
        1 => proptest::collection::vec((0u16..8, name()), 1..4).prop_map(|v| v.into_iter().map(|(g, n)| (g * 32 + 31, n)).collect()),
        // dense
        1 => name().prop_map(|n| (0u16..256).map(|s| (s, format!("{n}{s}"))).collect()),
        // alternating groups
        1 => (any::<bool>(), name()).prop_map(|(odd, n)| (0u16..256).filter(|s| ((s / 32) % 2 == 1) == odd).map(|s| (s, format!("{n}{}", s % 7))).collect()),
        // random density
        3 => proptest::collection::vec((0u16..256, name()), 0..24),
    ]
    .boxed()
}

fn label_strategy() -> BoxedStrategy<Option<String>> {
    prop_oneof![
        1 => Just(None),
        3 => archive_string().prop_filter("reserved label", |s| s != "AnimClipNameTable").prop_map(Some),
    ]
    .boxed()
}

impl Prop for C17 {
    type Case = Case;
    const ID: &'static str = "C17";
    fn rule() -> String {
        "An animation-set file (meta None/Some, clip table of exactly 257 optional names, 0..=6 (40 in thorough) sets each with an optional label (never the reserved AnimClipNameTable) and a present/absent pattern over 256 slots: \
         empty, single slot, only bit 31 of a group, dense, alternating groups, random; names Shift-JIS-lossless incl. the empty string) is serialized, parsed with BinArchive::from_bytes + ASetFile::from_archive and compared field by field; \
         re-serializing the re-read value must give identical bytes; the data size reported by the independent reader must be 12 + 4*257 + sum over sets of 4*(1 + groups present + names present). Large files with 255/256/257 fully populated sets (just below and above 65 536 strings). Bounded-exhaustive: every single slot 0..=255 alone, \
         bit 31 alone in each group, and empty / unlabelled sets in every position of a 3-set file. 1 case in 100 has 260..=700 sets; names come from the shared pool (which holds proper endings / beginnings of other pool strings) and 1 in ~300 is up to 36 KiB long. The re-read value is then edited through its public fields (first set / spec moved to the end, meta, one clip name or the header flags changed) and must round-trip again (edited-value-round-trip). One case in three is preceded on the same thread by a serialization that fails (the same file plus a set holding an unencodable name; outcome ignored). Non-trivial: >= 1 set with >= 1 present slot and >= 1 entirely absent group, or an empty set. Distinct = distinct case value."
            .into()
    }
    fn assumptions() -> Vec<String> {
        vec!["refbin reports the data-region size; names are Shift-JIS-lossless and NUL-free".into()]
    }
    fn both_builds() -> bool {
        true
    }
    fn random_cases(tier: Tier) -> u64 {
        tier.pick(15_000, 400_000)
    }
    fn strategy(tier: Tier) -> BoxedStrategy<Case> {
        let max_sets = tier.pick(6usize, 40);
        (
            proptest::option::weighted(0.7, archive_string()),
            prop_oneof![2 => Just(Vec::new()), 3 => proptest::collection::vec((0u16..257, archive_string()), 0..12), 1 => archive_string().prop_map(|n| (0u16..257).map(|i| (i, format!("{n}{i}"))).collect())],
            {
                let set = (label_strategy(), slots_strategy()).prop_map(|(label, slots)| SetSpec { label, slots }).boxed();
                // 1 case in 100 has hundreds of sets
                prop_oneof![99 => proptest::collection::vec(set.clone(), 0..=max_sets), 1 => proptest::collection::vec(set, 260..=700)]
            },
        )
            .prop_map(|(meta, clips, sets)| Case { meta, clips, sets, dense: 0 })
            .boxed()
    }
    fn enumerate(_tier: Tier, shard: u64, nshards: u64, f: &mut dyn FnMut(Case) -> bool) {
        let mut idx = 0u64;
        let mut emit = |c: Case| -> bool {
            let mine = idx % nshards == shard;
            idx += 1;
            !mine || f(c)
        };
        for slot in 0u16..256 {
            let c = Case { meta: if slot % 2 == 0 { Some("meta".into()) } else { None }, clips: vec![(slot, sjis_pool_string(slot as usize)), (256, "last".into())], sets: vec![SetSpec { label: Some(format!("S{slot}")), slots: vec![(slot, sjis_pool_string(slot as usize + 1))] }], dense: 0 };
            if !emit(c) {
                return;
            }
        }
        // empty / unlabelled / bit-31-only sets in every position of a three-set file
        let variants: Vec<SetSpec> = vec![
            SetSpec { label: None, slots: vec![] },
            SetSpec { label: Some("L".into()), slots: vec![] },
            SetSpec { label: None, slots: vec![(31, "x".into())] },
            SetSpec { label: Some("M".into()), slots: vec![(0, "".into()), (255, "z".into())] },
            SetSpec { label: None, slots: vec![(63, "a".into()), (64, "b".into())] },
        ];
        for a in &variants {
            for b in &variants {
                for c in &variants {
                    if !emit(Case { meta: None, clips: vec![], sets: vec![a.clone(), b.clone(), c.clone()], dense: 0 }) {
                        return;
                    }
                }
            }
            if !emit(Case { meta: Some("".into()), clips: vec![(0, "".into())], sets: vec![a.clone()], dense: 0 }) {
                return;
            }
        }
        // large files: around 65535 / 65536 strings (255, 256 and 257 fully populated sets, with and without a meta string)
        for dense in [255u16, 256, 257] {
            for meta in [None, Some("m".to_string())] {
                if !emit(Case { meta, clips: vec![], sets: vec![], dense }) {
                    return;
                }
            }
        }
        let _ = emit(Case { meta: None, clips: vec![], sets: vec![], dense: 0 });
    }
    fn exhaustive_note(_tier: Tier) -> Option<String> {
        Some("each of the 256 slots alone (walks every bit of every group incl. bit 31); 5 set shapes (empty unlabelled, empty labelled, bit-31-only, first+last slot, group boundary) in every position of a 3-set file; the file without sets; files with 255 / 256 / 257 fully populated sets (around 65 536 strings)".into())
    }

    fn run(case: &Case, cx: &mut Cx) {
        let a = to_aset(case);
        // one case in three is preceded, on this thread, by the serialization of the same file with an unencodable name in its last set
        // (fails part-way; outcome ignored)
        if (case.sets.len() + case.clips.len()) % 3 == 0 && case.dense == 0 {
            let mut bad = to_aset(case);
            bad.sets.push(vec![Some(super::prior::UNENCODABLE.to_string())]);
            super::prior::quiet(|| bad.serialize().is_ok());
            cx.label("after-a-failed-serialize-on-this-thread");
        }
        let bytes = match cx.call(|| a.serialize()) {
            Some(Ok(b)) => b,
            Some(Err(e)) => {
                cx.fail("serialize-ok", format!("serialize failed: {e}"));
                return;
            }
            None => return,
        };
        let back = match cx.call(|| BinArchive::from_bytes(&bytes, Endian::Little).and_then(|ar| ASetFile::from_archive(&ar))) {
            Some(Ok(b)) => b,
            Some(Err(e)) => {
                cx.fail("reparse-ok", format!("re-reading the serialized file failed: {e}"));
                return;
            }
            None => return,
        };
        if !cx.check(back.meta == a.meta, "meta", || format!("meta {:?}, expected {:?}", back.meta, a.meta)) {
            return;
        }
        if !cx.check(back.anim_clip_table == a.anim_clip_table, "clip-table", || {
            let i = back.anim_clip_table.iter().zip(a.anim_clip_table.iter()).position(|(x, y)| x != y);
            format!("clip table has {} entries (expected 257); first difference at {:?}", back.anim_clip_table.len(), i)
        }) {
            return;
        }
        if !cx.check(back.sets.len() == a.sets.len(), "set-count", || format!("{} sets re-read, {} written", back.sets.len(), a.sets.len())) {
            return;
        }
        for (i, (g, w)) in back.sets.iter().zip(a.sets.iter()).enumerate() {
            if !cx.check(g == w, "set-content", || {
                let j = g.iter().zip(w.iter()).position(|(x, y)| x != y);
                format!("set {i}: {} entries (expected 257), first difference at index {:?}: {:?} vs {:?}", g.len(), j, j.and_then(|j| g.get(j)), j.and_then(|j| w.get(j)))
            }) {
                return;
            }
        }
        match cx.call(|| back.serialize()) {
            Some(Ok(b2)) => {
                if !cx.check(b2 == bytes, "reserialize-identical", || format!("re-serializing the re-read value gives {} bytes, first serialization {} bytes", b2.len(), bytes.len())) {
                    return;
                }
            }
            Some(Err(e)) => {
                cx.fail("reserialize-identical", format!("re-serializing failed: {e}"));
                return;
            }
            None => return,
        }
        // the re-read value, edited through its public fields, is a value like any other: nothing remembered from the parse may leak
        // into its serialization (meta and one clip name changed, first set moved to the end)
        {
            let mut edited = back;
            edited.meta = Some("edited".to_string());
            if let Some(c) = edited.anim_clip_table.get_mut(5) {
                *c = Some("edited_clip".to_string());
            }
            if !edited.sets.is_empty() {
                let s = edited.sets.remove(0);
                edited.sets.push(s);
            }
            let again = match cx.call(|| edited.serialize().and_then(|b| BinArchive::from_bytes(&b, Endian::Little)).and_then(|ar| ASetFile::from_archive(&ar))) {
                Some(Ok(b)) => b,
                Some(Err(e)) => {
                    cx.fail("edited-value-round-trip", format!("serializing and re-reading the edited re-read value failed: {e}"));
                    return;
                }
                None => return,
            };
            if !cx.check(again.meta == edited.meta && again.anim_clip_table == edited.anim_clip_table && again.sets == edited.sets, "edited-value-round-trip", || {
                format!("after changing meta / clip 5 and moving the first set to the end of the re-read value, serialize + re-read gives meta {:?}, clip 5 {:?}, {} sets (equal to the edited value: meta {}, clips {}, sets {})", again.meta, again.anim_clip_table.get(5), again.sets.len(), again.meta == edited.meta, again.anim_clip_table == edited.anim_clip_table, again.sets == edited.sets)
            }) {
                return;
            }
        }
        // size: absent slots cost nothing, an entirely absent group is omitted
        let mut expect = 12 + 4 * 257;
        let (mut any_partial, mut any_empty) = (false, false);
        for s in &a.sets {
            let mut groups = 0;
            let mut names = 0;
            for g in 0..8 {
                let n = (0..32).filter(|b| s[1 + g * 32 + b].is_some()).count();
                if n > 0 {
                    groups += 1;
                    names += n;
                }
            }
            expect += 4 * (1 + groups + names);
            any_partial |= names > 0 && groups < 8;
            any_empty |= names == 0;
        }
        match refbin::parse(&bytes, false) {
            Ok(img) => {
                if !cx.check(img.defects.is_empty(), "image-well-formed", || format!("{:?}", img.defects)) {
                    return;
                }
                if !cx.check(img.data.len() == expect, "absent-slots-cost-nothing", || format!("data region is {} bytes, expected 12 + 4*257 + 4*(1+groups+names) per set = {expect}", img.data.len())) {
                    return;
                }
            }
            Err(e) => {
                cx.fail("image-well-formed", e);
                return;
            }
        }
        if any_partial || any_empty {
            cx.nontrivial();
        }
        cx.label_if(any_partial, "set-with-absent-group");
        cx.label_if(any_empty, "empty-set");
        cx.label_if(case.sets.len() > 255, ">255-sets");
        cx.label_if(a.sets.last().map(|s| s[0].is_none() && s[1..].iter().all(|x| x.is_none())).unwrap_or(false), "last-set-empty-and-unlabelled");
        cx.label_if(a.sets.iter().any(|s| (0..8).any(|g| (0..32).filter(|b| s[1 + g * 32 + b].is_some()).count() == 1 && s[1 + g * 32 + 31].is_some())), "group-with-only-bit-31");
        cx.label_if(a.meta.is_none(), "meta-none");
        cx.label_if(a.sets.is_empty(), "no-sets");
    }
}
