//! C15 — GameCube/Wii pack archive: build -> parse is identity, layout is aligned.
use crate::engine::prop::{Cx, Mix64, Prop, Tier};
use crate::gen::strings::{sjis_decode, sjis_encode, sjis_string};
use indexmap::IndexMap;
use mila::fe9_arc;
use proptest::prelude::*;
use serde::{Deserialize, Serialize};

pub struct C15;

#[derive(Clone, Debug, Hash, Serialize, Deserialize)]
pub enum Content {
    Raw(Vec<u8>),
    /// `len` pseudo-random bytes
    Seeded(u32, u64),
}
impl Content {
    fn bytes(&self) -> Vec<u8> {
        match self {
            Content::Raw(v) => v.clone(),
            Content::Seeded(n, s) => Mix64(*s).bytes(*n as usize),
        }
    }
}

#[derive(Clone, Debug, Hash, Serialize, Deserialize)]
pub enum Case {
    Files { files: Vec<(String, Content)>, placement_seed: u64 },
    /// `count` tiny files named by their index (count limit of the format: 65535)
    Many { count: u32, size: u8 },
    /// reference-built image only: bodies of `mib` MiB in total first, the name table after them (name offsets >= 16 MiB)
    NamesAfterBigBodies { mib: u8 },
}

fn files_of(c: &Case) -> Vec<(String, Vec<u8>)> {
    match c {
        Case::Files { files, .. } => {
            let mut out: Vec<(String, Vec<u8>)> = Vec::new();
            for (n, c) in files {
                if !out.iter().any(|(m, _)| m == n) {
                    out.push((n.clone(), c.bytes()));
                }
            }
            out
        }
        Case::Many { count, size } => (0..*count).map(|i| (format!("f{i:05}.bin"), vec![(i % 251) as u8; *size as usize])).collect(),
        Case::NamesAfterBigBodies { mib } => vec![("big.bin".to_string(), vec![0x5A; (*mib as usize) << 20]), ("\u{FF71}.cmp".to_string(), vec![1, 2, 3]), ("last".to_string(), vec![])],
    }
}

struct RefEntry {
    unknown: u32,
    name_addr: u32,
    file_addr: u32,
    size: u32,
}

/// independent reader of the image: header, then one 16-byte big-endian record per file
fn ref_read(img: &[u8]) -> Result<Vec<RefEntry>, String> {
    if img.len() < 8 || &img[0..4] != b"pack" {
        return Err("no 'pack' magic".into());
    }
    let count = u16::from_be_bytes([img[4], img[5]]) as usize;
    if img.len() < 8 + 16 * count {
        return Err(format!("header table for {count} files does not fit in {} bytes", img.len()));
    }
    let be = |o: usize| u32::from_be_bytes([img[o], img[o + 1], img[o + 2], img[o + 3]]);
    Ok((0..count).map(|i| RefEntry { unknown: be(8 + 16 * i), name_addr: be(12 + 16 * i), file_addr: be(16 + 16 * i), size: be(20 + 16 * i) }).collect())
}

/// a conforming image the library's own builder would never produce: names and bodies in any order
/// (names before, after or between bodies), gaps, arbitrary values in the unknown fields; bodies 32-aligned
fn ref_build(files: &[(String, Vec<u8>)], seed: u64) -> Vec<u8> {
    let mut r = Mix64(seed);
    let header = 8 + 16 * files.len();
    enum Item {
        Name(usize),
        Body(usize),
    }
    let mut items: Vec<Item> = (0..files.len()).flat_map(|i| [Item::Name(i), Item::Body(i)]).collect();
    for i in (1..items.len()).rev() {
        let j = r.below(i as u64 + 1) as usize;
        items.swap(i, j);
    }
    let mut img = vec![0u8; header];
    let mut name_addr = vec![0u32; files.len()];
    let mut file_addr = vec![0u32; files.len()];
    for it in items {
        // optional gap
        let gap = r.below(4) as usize * r.below(9) as usize;
        img.extend(std::iter::repeat(0xCC).take(gap));
        match it {
            Item::Name(i) => {
                name_addr[i] = img.len() as u32;
                img.extend_from_slice(&sjis_encode(&files[i].0).unwrap());
                img.push(0);
            }
            Item::Body(i) => {
                while img.len() % 32 != 0 {
                    img.push(0);
                }
                file_addr[i] = img.len() as u32;
                img.extend_from_slice(&files[i].1);
            }
        }
    }
    img[0..4].copy_from_slice(b"pack");
    img[4..6].copy_from_slice(&(files.len() as u16).to_be_bytes());
    img[6] = r.next() as u8;
    img[7] = r.next() as u8;
    for i in 0..files.len() {
        let o = 8 + 16 * i;
        img[o..o + 4].copy_from_slice(&(r.next() as u32).to_be_bytes());
        img[o + 4..o + 8].copy_from_slice(&name_addr[i].to_be_bytes());
        img[o + 8..o + 12].copy_from_slice(&file_addr[i].to_be_bytes());
        img[o + 12..o + 16].copy_from_slice(&(files[i].1.len() as u32).to_be_bytes());
    }
    img
}

fn same(cx: &mut Cx, what: &str, got: &IndexMap<String, Vec<u8>>, want: &[(String, Vec<u8>)]) -> bool {
    if !cx.check(got.len() == want.len(), "same-files", || format!("{what}: {} files parsed, {} packed", got.len(), want.len())) {
        return false;
    }
    for (i, ((gn, gc), (wn, wc))) in got.iter().zip(want.iter()).enumerate() {
        if !cx.check(gn == wn, "same-names-in-order", || format!("{what}: file #{i} is named {gn:?}, expected {wn:?}")) {
            return false;
        }
        if !cx.check(gc == wc, "same-contents", || format!("{what}: file #{i} {wn:?} has {} bytes, expected {} (first difference at {:?})", gc.len(), wc.len(), gc.iter().zip(wc.iter()).position(|(a, b)| a != b))) {
            return false;
        }
    }
    true
}

impl Prop for C15 {
    type Case = Case;
    const ID: &'static str = "C15";
    fn rule() -> String {
        "Ordered maps of 0..=12 distinct Shift-JIS-lossless names (empty name, half-width kana, kanji with ASCII-looking trail bytes weighted) to contents with lengths from {0,1,31,32,33,63,64,65, random <= 600}; plus files of 65535 and 4097 tiny \
         entries a few >= 64 KiB bodies, and a reference-built image whose name table lies behind 17 MiB of bodies. Oracle: parse(serialize(m)) == m including order; an independent reader of the image checks the magic, count = number of files, every recorded name offset points at the NUL-terminated Shift-JIS name inside the file, \
         every (address, size) is exact and inside the file, address % 32 == 0; a reference builder produces a second conforming image of the same files (names before / after / between bodies, bodies in any order, gaps, arbitrary unknown fields, bodies 32-aligned) \
         and parse must return the same files. 1 name in ~140 is 150 bytes..36 KiB long (mixed single/double-byte). Non-trivial: >= 2 files with at least one length not a multiple of 32 or empty, or a non-ASCII name. Distinct = distinct case value."
            .into()
    }
    fn assumptions() -> Vec<String> {
        vec!["names are distinct, NUL-free and Shift-JIS-lossless; the reference reader/builder in harness/src/props/c15.rs define the image".into()]
    }
    fn both_builds() -> bool {
        true
    }
    fn random_cases(tier: Tier) -> u64 {
        tier.pick(40_000, 3_000_000)
    }
    fn strategy(tier: Tier) -> BoxedStrategy<Case> {
        let big = tier.pick(600u32, 70_000);
        let name = prop_oneof![60 => "[a-zA-Z0-9_./]{1,14}", 60 => sjis_string(8), 20 => Just(String::new()), 1 => crate::gen::strings::long_sjis_string()];
        let content = prop_oneof![
            4 => proptest::sample::select(vec![0u32, 1, 31, 32, 33, 63, 64, 65]).prop_flat_map(|n| any::<u64>().prop_map(move |s| Content::Seeded(n, s))),
            3 => (0u32..=600, any::<u64>()).prop_map(|(n, s)| Content::Seeded(n, s)),
            2 => proptest::collection::vec(any::<u8>(), 0..12).prop_map(Content::Raw),
            1 => (0u32..=big, any::<u64>()).prop_map(|(n, s)| Content::Seeded(n, s)),
        ];
        (proptest::collection::vec((name, content), 0..=12), any::<u64>()).prop_map(|(files, placement_seed)| Case::Files { files, placement_seed }).boxed()
    }
    fn enumerate(tier: Tier, shard: u64, nshards: u64, f: &mut dyn FnMut(Case) -> bool) {
        let mut cases = vec![Case::Files { files: vec![], placement_seed: 1 }, Case::Many { count: 65535, size: 1 }, Case::Many { count: tier.pick(4097, 30000), size: 3 }, Case::Many { count: 300, size: 0 }, Case::Many { count: 1, size: 32 }, Case::NamesAfterBigBodies { mib: 17 }];
        // every pair of lengths around the 32-byte boundary, ASCII and non-ASCII names
        for a in [0u32, 1, 31, 32, 33] {
            for b in [0u32, 31, 32, 33, 64] {
                for names in [("a.bin", "b.bin"), ("\u{FF71}\u{FF72}", "\u{8868}.cmp"), ("", "x")] {
                    cases.push(Case::Files { files: vec![(names.0.into(), Content::Seeded(a, 1)), (names.1.into(), Content::Seeded(b, 2)), ("tail".into(), Content::Raw(vec![9]))], placement_seed: (a * 100 + b) as u64 });
                }
            }
        }
        for (i, c) in cases.into_iter().enumerate() {
            if i as u64 % nshards == shard && !f(c) {
                return;
            }
        }
    }
    fn exhaustive_note(tier: Tier) -> Option<String> {
        Some(format!("fixed family: empty archive, 65535 one-byte files, {} three-byte files, 300 empty files, every pair of body lengths from {{0,1,31,32,33}} x {{0,31,32,33,64}} with ASCII / non-ASCII / empty names", tier.pick(4097, 30000)))
    }

    fn run(case: &Case, cx: &mut Cx) {
        let files = files_of(case);
        let mut map: IndexMap<String, Vec<u8>> = IndexMap::new();
        for (n, c) in &files {
            map.insert(n.clone(), c.clone());
        }
        let img = match cx.call(|| fe9_arc::serialize(&map)) {
            Some(Ok(i)) => i,
            Some(Err(e)) => {
                cx.fail("serialize-ok", format!("serialize failed: {e}"));
                return;
            }
            None => return,
        };
        cx.mix_bytes(&img);
        match cx.call(|| fe9_arc::parse(&img)) {
            Some(Ok(back)) => {
                if !same(cx, "parse(serialize(m))", &back, &files) {
                    return;
                }
            }
            Some(Err(e)) => {
                cx.fail("reparse-ok", format!("parse rejected the library's own image: {e}"));
                return;
            }
            None => return,
        }
        // independent reader
        let entries = match ref_read(&img) {
            Ok(e) => e,
            Err(e) => {
                cx.fail("image-header", e);
                return;
            }
        };
        if !cx.check(entries.len() == files.len(), "image-count", || format!("header count {} != {} files", entries.len(), files.len())) {
            return;
        }
        for (i, (e, (name, content))) in entries.iter().zip(files.iter()).enumerate() {
            let na = e.name_addr as usize;
            let got_name = img.get(na..).and_then(|r| r.iter().position(|b| *b == 0).map(|n| &r[..n])).and_then(sjis_decode);
            if !cx.check(got_name.as_deref() == Some(name.as_str()), "image-name-offsets-exact", || format!("entry {i}: name offset {na} holds {got_name:?}, expected {name:?}")) {
                return;
            }
            let (fa, sz) = (e.file_addr as usize, e.size as usize);
            if !cx.check(sz == content.len() && fa + sz <= img.len() && img[fa..fa + sz] == content[..], "image-file-offsets-exact", || format!("entry {i} {name:?}: recorded (address {fa}, size {sz}) does not hold the {}-byte content (image {} bytes)", content.len(), img.len())) {
                return;
            }
            if !cx.check(fa % 32 == 0, "image-32-byte-aligned", || format!("entry {i} {name:?}: body starts at {fa}, not a multiple of 32")) {
                return;
            }
            let _ = e.unknown;
        }
        // a conforming image in another arrangement
        let seed = match case {
            Case::Files { placement_seed, .. } => *placement_seed,
            Case::Many { count, .. } => *count as u64,
            Case::NamesAfterBigBodies { mib } => *mib as u64,
        };
        let alt = if let Case::NamesAfterBigBodies { .. } = case {
            // bodies first, then all names: name offsets beyond 16 MiB
            let header = 8 + 16 * files.len();
            let mut img = vec![0u8; header];
            let mut fa = Vec::new();
            for (_, c) in &files {
                while img.len() % 32 != 0 {
                    img.push(0);
                }
                fa.push(img.len() as u32);
                img.extend_from_slice(c);
            }
            let mut na = Vec::new();
            for (n, _) in &files {
                na.push(img.len() as u32);
                img.extend_from_slice(&sjis_encode(n).unwrap());
                img.push(0);
            }
            img[0..4].copy_from_slice(b"pack");
            img[4..6].copy_from_slice(&(files.len() as u16).to_be_bytes());
            for i in 0..files.len() {
                let o = 8 + 16 * i;
                img[o + 4..o + 8].copy_from_slice(&na[i].to_be_bytes());
                img[o + 8..o + 12].copy_from_slice(&fa[i].to_be_bytes());
                img[o + 12..o + 16].copy_from_slice(&(files[i].1.len() as u32).to_be_bytes());
            }
            cx.label("name-offsets>=16MiB");
            img
        } else {
            ref_build(&files, seed)
        };
        match cx.call(|| fe9_arc::parse(&alt)) {
            Some(Ok(back)) => {
                if !same(cx, "parse(reference-built image)", &back, &files) {
                    return;
                }
            }
            Some(Err(e)) => {
                cx.fail("alternative-placement-accepted", format!("parse rejected a conforming image (names/bodies placed differently): {e}"));
                return;
            }
            None => return,
        }
        let non_ascii = files.iter().any(|(n, _)| !n.is_ascii());
        if (files.len() >= 2 && files.iter().any(|(_, c)| c.len() % 32 != 0 || c.is_empty())) || non_ascii {
            cx.nontrivial();
        }
        cx.label_if(non_ascii, "non-ascii-name");
        cx.label_if(files.iter().any(|(_, c)| c.is_empty()), "empty-file");
        cx.label_if(files.is_empty(), "empty-archive");
        cx.label_if(files.iter().any(|(n, _)| n.is_empty()), "empty-name");
        cx.label_if(files.len() > 1000, ">1000-files");
        cx.label_if(files.iter().any(|(_, c)| c.len() >= 65536), "body>=64KiB");
    }
}
