//! C11 — decompression is correct on every conforming stream and errors on the rest.
use crate::engine::prop::{Cx, Prop, Tier};
use crate::refimpl::reflz::{self, Kind, Malformed, Token};
use mila::{CompressionFormat, LZ10CompressionFormat, LZ13CompressionFormat};
use proptest::prelude::*;
use serde::{Deserialize, Serialize};

pub struct C11;

/// abstract token: displacement is resolved against the amount produced so far when the stream is built
#[derive(Clone, Debug, Hash, Serialize, Deserialize)]
pub enum Tok {
    Lit(u8),
    /// len (clamped into the kind's range), displacement selector
    Ref(u32, Disp),
}
#[derive(Clone, Debug, Hash, Serialize, Deserialize)]
pub enum Disp {
    /// exactly this displacement (clamped to produced and 4096)
    Abs(u16),
    /// the farthest legal one: min(produced, 4096)
    Far,
    /// `produced - k` (near the start of the output)
    NearStart(u8),
}

#[derive(Clone, Debug, Hash, Serialize, Deserialize)]
pub enum Entry {
    /// LZ10CompressionFormat::decompress
    Lz10,
    /// CompressionFormat::LZ10(..).decompress
    Format10,
    /// LZ13CompressionFormat::decompress on the bare stream
    Lz13Bare,
    /// LZ13 entry, stream wrapped as [0x13, w0, w1, w2] + stream
    Lz13Wrapped([u8; 3]),
    /// CompressionFormat::LZ13(..).decompress, wrapped
    Format13Wrapped([u8; 3]),
}

#[derive(Clone, Debug, Hash, Serialize, Deserialize)]
pub enum Damage {
    None,
    /// keep only the first `cut` (index-mapped) bytes of the stream (strict prefix)
    Prefix(u16),
    /// rewrite the `i`-th reference (index-mapped) so that it reaches `extra`+1 bytes before the start of the output
    BeforeStart(u16, u8),
    /// replace the type byte
    BadType(u8),
    /// xor one byte (index-mapped position) with a non-zero value
    Flip(u16, u8),
    /// append garbage
    Trailing(Vec<u8>),
}

#[derive(Clone, Debug, Hash, Serialize, Deserialize)]
pub enum Case {
    Stream {
        lz11: bool,
        tokens: Vec<Tok>,
        entry: Entry,
        damage: Damage,
        /// LZ11 only: use the extended-length header; Some(0) = declare the true length, Some(n) = declare n instead
        #[serde(default)]
        ext: Option<u32>,
    },
    /// type-0 stored form through the LZ13 entry point: [0, len24] + data (+ damage: declared length off by `len_delta`)
    Stored { data: Vec<u8>, len_delta: i8, via_format: bool },
    /// arbitrary bytes to every entry point
    Raw(Vec<u8>),
}

pub fn build_tokens(lz11: bool, toks: &[Tok], cap: usize) -> Vec<Token> {
    let mut out = Vec::new();
    let mut produced = 0usize;
    for t in toks {
        if produced >= cap {
            break;
        }
        match t {
            Tok::Lit(b) => {
                out.push(Token::Lit(*b));
                produced += 1;
            }
            Tok::Ref(len, d) => {
                if produced == 0 {
                    out.push(Token::Lit(*len as u8));
                    produced += 1;
                    continue;
                }
                let maxlen = if lz11 { 65808 } else { 18 };
                let len = (*len).clamp(3, maxlen);
                let far = produced.min(4096);
                let disp = match d {
                    Disp::Abs(a) => (*a as usize).clamp(1, far),
                    Disp::Far => far,
                    Disp::NearStart(k) => produced.saturating_sub(*k as usize).clamp(1, far),
                };
                out.push(Token::Ref { len, disp: disp as u32 });
                produced += len as usize;
            }
        }
    }
    out
}

fn map_index(sel: u16, len: usize) -> usize {
    // monotone map of 0..=65535 onto 0..len
    ((sel as usize) * len) >> 16
}

/// positions (byte offset of the token's first byte) of every reference token in an encoded stream
fn reference_positions(kind: Kind, tokens: &[Token]) -> Vec<(usize, usize, usize)> {
    // (offset of the token bytes, token size, bytes produced before it)
    let mut v = Vec::new();
    let mut pos = 4;
    let mut produced = 0usize;
    for (i, t) in tokens.iter().enumerate() {
        if i % 8 == 0 {
            pos += 1;
        }
        match *t {
            Token::Lit(_) => {
                pos += 1;
                produced += 1;
            }
            Token::Ref { len, .. } => {
                let size = match kind {
                    Kind::Lz10 => 2,
                    Kind::Lz11 => 1 + reflz::lz11_form(len) as usize,
                };
                v.push((pos, size, produced));
                pos += size;
                produced += len as usize;
            }
        }
    }
    v
}

struct Built {
    bytes: Vec<u8>,
    /// what the statement says about this input
    expect: Expect,
    class: &'static str,
}
enum Expect {
    Ok(Vec<u8>),
    Err,
    NoPanicOnly,
}

/// classification of a bare stream for an entry point that accepts `kinds`
fn classify_bare(bytes: &[u8], accept10: bool, accept11: bool) -> (Expect, &'static str) {
    if bytes.len() < 4 {
        return (Expect::Err, if bytes.is_empty() { "malformed:empty" } else { "malformed:shorter-than-header" });
    }
    let kind = match bytes[0] {
        0x10 if accept10 => Kind::Lz10,
        0x11 if accept11 => Kind::Lz11,
        0x10 | 0x11 => return (Expect::NoPanicOnly, "dont-care:other-lz-kind-at-this-entry"),
        _ => return (Expect::Err, "malformed:unknown-type"),
    };
    match reflz::parse(kind, bytes) {
        Ok(p) => match reflz::expand(&p.tokens) {
            Some(v) => (Expect::Ok(v), "well-formed"),
            None => (Expect::NoPanicOnly, "dont-care:internal"),
        },
        Err(Malformed::ShorterThanHeader) => (Expect::Err, "malformed:shorter-than-header"),
        Err(Malformed::BadType(_)) => (Expect::Err, "malformed:unknown-type"),
        Err(Malformed::Truncated { .. }) => (Expect::Err, "malformed:truncated"),
        Err(Malformed::BeforeStart { .. }) => (Expect::Err, "malformed:before-start"),
        Err(Malformed::ExtendedHeader) => (Expect::NoPanicOnly, "dont-care:extended-header>64MiB"),
        Err(Malformed::Overshoot { .. }) => (Expect::NoPanicOnly, "dont-care:overshoot"),
        Err(Malformed::Trailing { .. }) => (Expect::NoPanicOnly, "dont-care:trailing-bytes"),
    }
}

/// what the LZ13 entry point must do with `bytes`
fn classify_lz13(bytes: &[u8]) -> (Expect, &'static str) {
    if bytes.len() < 4 {
        return (Expect::Err, if bytes.is_empty() { "malformed:empty" } else { "malformed:shorter-than-header" });
    }
    match bytes[0] {
        0x13 => {
            let inner = &bytes[4..];
            if inner.is_empty() || inner.len() < 4 {
                return (Expect::Err, "malformed:wrapper-without-stream");
            }
            match inner[0] {
                0x11 => classify_bare(inner, false, true),
                0x10 => (Expect::NoPanicOnly, "dont-care:wrapped-lz10"),
                _ => (Expect::Err, "malformed:unknown-type"),
            }
        }
        0x00 => {
            let declared = bytes[1] as usize | (bytes[2] as usize) << 8 | (bytes[3] as usize) << 16;
            if declared == bytes.len() - 4 {
                (Expect::Ok(bytes[4..].to_vec()), "well-formed:stored")
            } else {
                (Expect::NoPanicOnly, "dont-care:stored-length-mismatch")
            }
        }
        0x10 | 0x11 => classify_bare(bytes, true, true),
        _ => (Expect::Err, "malformed:unknown-type"),
    }
}

fn build(case: &Case, cap: usize) -> Vec<(Entry, Built)> {
    match case {
        Case::Raw(b) => [Entry::Lz10, Entry::Format10, Entry::Lz13Bare, Entry::Format13Wrapped([0; 3])]
            .into_iter()
            .map(|e| {
                let (expect, class) = match e {
                    Entry::Lz10 | Entry::Format10 => classify_bare(b, true, false),
                    _ => classify_lz13(b),
                };
                // Format13Wrapped on raw bytes = CompressionFormat::LZ13 on the bytes as they are
                (e, Built { bytes: b.clone(), expect, class })
            })
            .collect(),
        Case::Stored { data, len_delta, via_format } => {
            let declared = (data.len() as i64 + *len_delta as i64).max(0) as usize & 0xFF_FFFF;
            let mut bytes = vec![0u8, declared as u8, (declared >> 8) as u8, (declared >> 16) as u8];
            bytes.extend_from_slice(data);
            let (expect, class) = classify_lz13(&bytes);
            let e = if *via_format { Entry::Format13Wrapped([0; 3]) } else { Entry::Lz13Bare };
            vec![(e, Built { bytes, expect, class })]
        }
        Case::Stream { lz11, tokens, entry, damage, ext } => {
            let kind = if *lz11 { Kind::Lz11 } else { Kind::Lz10 };
            let toks = build_tokens(*lz11, tokens, cap);
            let mut bytes = match (lz11, ext) {
                (true, Some(d)) => {
                    let true_len = reflz::expand(&toks).map(|v| v.len()).unwrap_or(0) as u32;
                    reflz::encode_extended(&toks, if *d == 0 { true_len } else { *d })
                }
                _ => reflz::encode(kind, &toks),
            };
            let hdr = if *lz11 && ext.is_some() { 8 } else { 4 };
            match damage {
                Damage::None => {}
                Damage::Prefix(sel) => {
                    let cut = map_index(*sel, bytes.len());
                    bytes.truncate(cut);
                }
                Damage::BeforeStart(sel, extra) => {
                    let refs = reference_positions(kind, &toks);
                    if !refs.is_empty() {
                        let (pos, size, produced) = refs[map_index(*sel, refs.len())];
                        let pos = pos + hdr - 4;
                        // displacement field := produced + extra  (i.e. disp = produced + extra + 1 > produced)
                        let d = produced + *extra as usize;
                        if d <= 0xFFF {
                            let hi = pos + size - 2;
                            bytes[hi] = (bytes[hi] & 0xF0) | ((d >> 8) as u8);
                            bytes[hi + 1] = d as u8;
                        }
                    }
                }
                Damage::BadType(t) => {
                    bytes[0] = *t;
                }
                Damage::Flip(sel, x) => {
                    if !bytes.is_empty() {
                        let i = map_index(*sel, bytes.len());
                        bytes[i] ^= (*x).max(1);
                    }
                }
                Damage::Trailing(g) => bytes.extend_from_slice(g),
            }
            let wrap = |w: &[u8; 3], b: &[u8]| {
                let mut v = vec![0x13, w[0], w[1], w[2]];
                v.extend_from_slice(b);
                v
            };
            let (fed, (expect, class)) = match entry {
                Entry::Lz10 | Entry::Format10 => {
                    let c = classify_bare(&bytes, true, false);
                    (bytes, c)
                }
                Entry::Lz13Bare => {
                    let c = classify_lz13(&bytes);
                    (bytes, c)
                }
                Entry::Lz13Wrapped(w) | Entry::Format13Wrapped(w) => {
                    let fed = wrap(w, &bytes);
                    let c = classify_lz13(&fed);
                    (fed, c)
                }
            };
            vec![(entry.clone(), Built { bytes: fed, expect, class })]
        }
    }
}

fn call_entry(e: &Entry, bytes: &[u8]) -> Result<Vec<u8>, String> {
    match e {
        Entry::Lz10 => LZ10CompressionFormat.decompress(bytes).map_err(|e| e.to_string()),
        Entry::Format10 => CompressionFormat::LZ10(LZ10CompressionFormat).decompress(bytes).map_err(|e| e.to_string()),
        Entry::Lz13Bare | Entry::Lz13Wrapped(_) => LZ13CompressionFormat.decompress(bytes).map_err(|e| e.to_string()),
        Entry::Format13Wrapped(_) => CompressionFormat::LZ13(LZ13CompressionFormat).decompress(bytes).map_err(|e| e.to_string()),
    }
}

pub fn tok_strategy(lz11: bool) -> BoxedStrategy<Tok> {
    let len = if lz11 {
        prop_oneof![
            4 => 3u32..=16,
            3 => proptest::sample::select(vec![3u32, 16, 17, 18, 272, 273, 274, 4096, 4097, 65807, 65808]),
            2 => 17u32..=272,
            1 => 273u32..=6000,
        ]
        .boxed()
    } else {
        prop_oneof![3 => 3u32..=18, 1 => Just(18u32), 1 => Just(3u32)].boxed()
    };
    let disp = prop_oneof![
        3 => proptest::sample::select(vec![1u16, 2, 3, 4095, 4096]).prop_map(Disp::Abs),
        2 => (1u16..=4096).prop_map(Disp::Abs),
        2 => Just(Disp::Far),
        2 => (0u8..4).prop_map(Disp::NearStart),
    ];
    prop_oneof![
        3 => any::<u8>().prop_map(Tok::Lit),
        1 => (0u8..3).prop_map(Tok::Lit),
        3 => (len, disp).prop_map(|(l, d)| Tok::Ref(l, d)),
    ]
    .boxed()
}

fn entry_strategy(lz11: bool) -> BoxedStrategy<Entry> {
    let w = any::<[u8; 3]>();
    if lz11 {
        prop_oneof![
            2 => Just(Entry::Lz13Bare),
            3 => w.clone().prop_map(Entry::Lz13Wrapped),
            1 => w.prop_map(Entry::Format13Wrapped),
            1 => Just(Entry::Lz10), // an LZ11 stream at the LZ10 entry: don't-care class, must not panic
        ]
        .boxed()
    } else {
        prop_oneof![
            3 => Just(Entry::Lz10),
            1 => Just(Entry::Format10),
            2 => Just(Entry::Lz13Bare),
            1 => w.prop_map(Entry::Lz13Wrapped),
        ]
        .boxed()
    }
}

fn damage_strategy() -> BoxedStrategy<Damage> {
    prop_oneof![
        6 => Just(Damage::None),
        3 => any::<u16>().prop_map(Damage::Prefix),
        3 => (any::<u16>(), 0u8..3).prop_map(|(a, b)| Damage::BeforeStart(a, b)),
        1 => any::<u8>().prop_map(Damage::BadType),
        2 => (any::<u16>(), any::<u8>()).prop_map(|(a, b)| Damage::Flip(a, b)),
        1 => proptest::collection::vec(any::<u8>(), 1..4).prop_map(Damage::Trailing),
    ]
    .boxed()
}

impl Prop for C11 {
    type Case = Case;
    const ID: &'static str = "C11";

    fn rule() -> String {
        "Conforming streams are generated as token lists against a reference expander (each reference's displacement resolved to <= bytes produced): literals, LZ10 references \
         3..=18, LZ11 references in all three length forms (3..=16, 17..=272, 273..=65808) with displacements weighted to 1, 2, 3, near the start of the output, 4095, 4096; encoded by the \
         reference encoder and fed to LZ10CompressionFormat::decompress, CompressionFormat::LZ10, LZ13CompressionFormat::decompress (bare LZ10, bare LZ11, 0x13-wrapped LZ11 with random \
         wrapper bytes) and CompressionFormat::LZ13; plus the type-0 stored form. Malformed inputs: every class of the statement - empty, 1..3 bytes, unknown type byte, strict prefixes \
         (bounded-exhaustive: every prefix of a fixed list of streams), one reference rewritten to reach before the output start, single-byte corruption, trailing garbage, random bytes. \
         Three-way oracle driven by the reference reader: well-formed and exactly terminated => Ok(expand(tokens)); empty / shorter than a header / unknown type / truncated / before-start => Err; \
         anything else (trailing bytes, overshooting final reference, LZ11 stream at the LZ10 entry, wrapped LZ10, an extended LZ11 header declaring > 64 MiB, stored form with wrong length) => no panic only. LZ11 streams behind the extended-length header (zero 24-bit length + 32-bit length) are classified like any other stream, incl. declarations of 16 MiB+ with a truncated / before-start body. \
         No panic and no abort in either build. Non-trivial: a well-formed stream containing a reference the library's own compressor never emits (disp = 1 or length > 4096), or a malformed input of the \
         truncated / before-start / short classes. Distinct = distinct case value."
            .into()
    }
    fn assumptions() -> Vec<String> {
        vec![
            "reflz (harness/src/refimpl/reflz.rs) defines well-formedness and expansion".into(),
            "output of generated streams is capped at 1 MiB; extended-length LZ11 headers are honoured up to a declared 64 MiB (the decoder library documents them), beyond that only panic-freedom".into(),
        ]
    }
    fn both_builds() -> bool {
        true
    }
    fn random_cases(tier: Tier) -> u64 {
        tier.pick(300_000, 8_000_000)
    }
    fn strategy(tier: Tier) -> BoxedStrategy<Case> {
        let maxtok = tier.pick(40usize, 120);
        let stream = any::<bool>().prop_flat_map(move |lz11| {
            (
                proptest::collection::vec(tok_strategy(lz11), 0..maxtok),
                entry_strategy(lz11),
                damage_strategy(),
                prop_oneof![12 => Just(None), 2 => Just(Some(0u32)), 1 => proptest::sample::select(vec![0x0100_0000u32, 0x0100_0004, 0x00FF_FFFF, 0x0200_0000, 1, 35]).prop_map(Some)],
            )
                .prop_map(move |(tokens, entry, damage, ext)| Case::Stream { lz11, tokens, entry, damage, ext: if lz11 { ext } else { None } })
        });
        prop_oneof![
            12 => stream,
            1 => (proptest::collection::vec(any::<u8>(), 0..40), prop_oneof![4 => Just(0i8), 1 => -3i8..=3], any::<bool>())
                .prop_map(|(data, len_delta, via_format)| Case::Stored { data, len_delta, via_format }),
            1 => proptest::collection::vec(any::<u8>(), 0..24).prop_map(Case::Raw),
            1 => (proptest::sample::select(vec![0x00u8, 0x10, 0x11, 0x13]), proptest::collection::vec(any::<u8>(), 0..24)).prop_map(|(t, mut v)| {
                v.insert(0, t);
                Case::Raw(v)
            }),
        ]
        .boxed()
    }
    fn enumerate(tier: Tier, shard: u64, nshards: u64, f: &mut dyn FnMut(Case) -> bool) {
        let mut idx = 0u64;
        let mut emit = |c: Case| -> bool {
            let mine = idx % nshards == shard;
            idx += 1;
            if mine {
                f(c)
            } else {
                true
            }
        };
        // every input of length 0..=3 over a small alphabet of interesting bytes
        let alpha = [0x00u8, 0x01, 0x10, 0x11, 0x13, 0x80, 0xFF];
        if !emit(Case::Raw(vec![])) {
            return;
        }
        for a in alpha {
            if !emit(Case::Raw(vec![a])) {
                return;
            }
            for b in alpha {
                if !emit(Case::Raw(vec![a, b])) {
                    return;
                }
                for c in alpha {
                    if !emit(Case::Raw(vec![a, b, c])) {
                        return;
                    }
                }
            }
        }
        // every type byte with a plausible rest
        for t in 0u16..=255 {
            if !emit(Case::Raw(vec![t as u8, 4, 0, 0, 0, 1, 2, 3, 4])) {
                return;
            }
        }
        // fixed streams: every strict prefix, every reference rewritten before the start, at every entry point
        let fixed: Vec<(bool, Vec<Tok>)> = vec![
            (false, vec![Tok::Lit(1), Tok::Lit(2), Tok::Ref(3, Disp::Abs(1)), Tok::Lit(9), Tok::Ref(18, Disp::Far), Tok::Ref(5, Disp::Abs(2)), Tok::Lit(7), Tok::Lit(8), Tok::Lit(9), Tok::Ref(4, Disp::NearStart(0))]),
            (true, vec![Tok::Lit(1), Tok::Ref(16, Disp::Abs(1)), Tok::Ref(17, Disp::Abs(2)), Tok::Lit(5), Tok::Ref(272, Disp::Far), Tok::Ref(273, Disp::Abs(3)), Tok::Lit(6), Tok::Ref(4200, Disp::Abs(4096)), Tok::Ref(3, Disp::NearStart(1)), Tok::Lit(0)]),
            (true, vec![Tok::Lit(0xAA), Tok::Ref(65808, Disp::Abs(1)), Tok::Lit(1), Tok::Ref(0x121, Disp::Far), Tok::Ref(3, Disp::NearStart(2))]),
            (false, (0..20).map(|i| if i % 3 == 2 { Tok::Ref(3 + i as u32 % 16, Disp::NearStart((i % 4) as u8)) } else { Tok::Lit(i as u8) }).collect()),
        ];
        let _ = tier;
        for (lz11, toks) in fixed {
            let kind = if lz11 { Kind::Lz11 } else { Kind::Lz10 };
            let n = reflz::encode(kind, &build_tokens(lz11, &toks, 1 << 20)).len();
            let nrefs = toks.iter().filter(|t| matches!(t, Tok::Ref(..))).count();
            let entries: Vec<Entry> = if lz11 {
                vec![Entry::Lz13Bare, Entry::Lz13Wrapped([9, 0, 0]), Entry::Format13Wrapped([0xFF, 0xFF, 0xFF])]
            } else {
                vec![Entry::Lz10, Entry::Format10, Entry::Lz13Bare]
            };
            for entry in entries {
                if lz11 {
                    // the same stream behind an extended-length header: true length, and a 16 MiB+ declaration with a bad reference
                    for (ext, damage) in [(Some(0u32), Damage::None), (Some(0), Damage::Prefix(40000)), (Some(0x0100_0000), Damage::BeforeStart(1, 0)), (Some(0x0100_0004), Damage::BeforeStart(40000, 1)), (Some(0x0100_0000), Damage::None)] {
                        if !emit(Case::Stream { lz11, tokens: toks.clone(), entry: entry.clone(), damage, ext }) {
                            return;
                        }
                    }
                }
                if !emit(Case::Stream { lz11, tokens: toks.clone(), entry: entry.clone(), damage: Damage::None, ext: None }) {
                    return;
                }
                for cut in 0..n {
                    // selector that maps exactly onto `cut`
                    let sel = (((cut as u64) << 16) / n as u64 + 1).min(65535) as u16;
                    let sel = if map_index(sel, n) == cut { sel } else { sel.saturating_sub(1) };
                    if !emit(Case::Stream { lz11, tokens: toks.clone(), entry: entry.clone(), damage: Damage::Prefix(sel), ext: None }) {
                        return;
                    }
                }
                for r in 0..nrefs {
                    let sel = ((((r as u64) << 16) / nrefs as u64) + 1).min(65535) as u16;
                    for extra in 0..2u8 {
                        if !emit(Case::Stream { lz11, tokens: toks.clone(), entry: entry.clone(), damage: Damage::BeforeStart(sel, extra), ext: None }) {
                            return;
                        }
                    }
                }
            }
        }
        // a reference that reaches exactly one byte before the start when 4094 / 4095 / 4096 / 4097 bytes have been produced
        // (displacement field 0xFFD..0x1000 territory), for both kinds and the wrapped entry
        // ... with 1..=16 leading literals, so that the final reference falls on every position of its flag group
        for (produced, lead) in [4094u32, 4095, 4096, 4097].into_iter().flat_map(|p| (1u32..=16).map(move |l| (p, l))) {
            for lz11 in [false, true] {
                let mut toks = vec![Tok::Lit(7); lead as usize];
                let mut left = produced - lead;
                while left > 0 {
                    let step = if lz11 { left.min(4000) } else { left.min(18) };
                    if step >= 3 {
                        toks.push(Tok::Ref(step, Disp::Abs(1)));
                        left -= step;
                    } else {
                        toks.push(Tok::Lit(7));
                        left -= 1;
                    }
                }
                toks.push(Tok::Ref(3, Disp::Far));
                let entries: Vec<Entry> = if lz11 { vec![Entry::Lz13Bare, Entry::Lz13Wrapped([1, 2, 3])] } else { vec![Entry::Lz10, Entry::Lz13Bare] };
                for entry in entries {
                    for damage in [Damage::None, Damage::BeforeStart(65535, 0), Damage::BeforeStart(65535, 1)] {
                        if !emit(Case::Stream { lz11, tokens: toks.clone(), entry: entry.clone(), damage, ext: None }) {
                            return;
                        }
                    }
                }
            }
        }
        // stored form of every length 0..=8
        for n in 0..=8usize {
            for delta in [0i8, 1, -1] {
                if !emit(Case::Stored { data: (0..n as u8).collect(), len_delta: delta, via_format: n % 2 == 0 }) {
                    return;
                }
            }
        }
    }
    fn exhaustive_note(_tier: Tier) -> Option<String> {
        Some("all inputs of length 0..=3 over 7 interesting byte values; all 256 type bytes; every strict prefix and every single before-start rewrite of 4 fixed streams at 3 entry points each; a reference reaching the first byte / one or two bytes before it after exactly 4094..=4097 bytes of output, at every position of its flag group; stored form of every length 0..=8".into())
    }
    fn corpus(seed: u64) -> Vec<Vec<u8>> {
        use proptest::strategy::ValueTree;
        use proptest::test_runner::{Config, RngAlgorithm, TestRng, TestRunner};
        let mut bytes = [0u8; 32];
        bytes[..8].copy_from_slice(&seed.to_le_bytes());
        let mut runner = TestRunner::new_with_rng(Config::default(), TestRng::from_seed(RngAlgorithm::ChaCha, &bytes));
        let mut out = Vec::new();
        for lz11 in [false, true] {
            let st = proptest::collection::vec(tok_strategy(lz11), 0..24);
            for i in 0..60 {
                let toks = st.new_tree(&mut runner).unwrap().current();
                let kind = if lz11 { Kind::Lz11 } else { Kind::Lz10 };
                let stream = reflz::encode(kind, &build_tokens(lz11, &toks, 4096));
                if stream.len() > 1500 {
                    continue;
                }
                if lz11 && i % 2 == 0 {
                    let mut w = vec![0x13, 1, 2, 3];
                    w.extend_from_slice(&stream);
                    out.push(w);
                } else {
                    out.push(stream);
                }
            }
        }
        out.push(vec![0, 3, 0, 0, 1, 2, 3]);
        out
    }
    fn shrink(c: &Case) -> Vec<Case> {
        match c {
            Case::Stream { lz11, tokens, entry, damage, ext } if !tokens.is_empty() => {
                let mut v = Vec::new();
                for i in 0..tokens.len().min(64) {
                    let mut t = tokens.clone();
                    t.remove(i);
                    v.push(Case::Stream { lz11: *lz11, tokens: t, entry: entry.clone(), damage: damage.clone(), ext: *ext });
                }
                v
            }
            _ => Vec::new(),
        }
    }

    fn run(case: &Case, cx: &mut Cx) {
        let cap = 1 << 20;
        for (entry, b) in build(case, cap) {
            let res = match cx.call(|| call_entry(&entry, &b.bytes)) {
                Some(r) => r,
                None => return,
            };
            cx.label(b.class);
            match (&b.expect, &res) {
                (Expect::Ok(want), Ok(got)) => {
                    cx.mix_bytes(got);
                    if !cx.check(got == want, "well-formed-stream-expands-exactly", || {
                        let first = got.iter().zip(want.iter()).position(|(a, b)| a != b);
                        format!("{entry:?}: well-formed stream ({} bytes) decompressed to {} bytes, expected {} (first difference at {:?}); stream starts {:02x?}", b.bytes.len(), got.len(), want.len(), first, &b.bytes[..b.bytes.len().min(40)])
                    }) {
                        return;
                    }
                }
                (Expect::Ok(want), Err(e)) => {
                    cx.fail("well-formed-stream-accepted", format!("{entry:?}: well-formed stream ({} bytes -> {} bytes) rejected: {e}; stream starts {:02x?}", b.bytes.len(), want.len(), &b.bytes[..b.bytes.len().min(40)]));
                    return;
                }
                (Expect::Err, Ok(got)) => {
                    cx.fail("malformed-input-rejected", format!("{entry:?}: input classified {} was accepted and returned {} bytes; input {:02x?}", b.class, got.len(), &b.bytes[..b.bytes.len().min(40)]));
                    return;
                }
                (Expect::Err, Err(_)) => {}
                (Expect::NoPanicOnly, r) => {
                    if let Ok(g) = r {
                        cx.mix_bytes(g);
                    }
                }
            }
            // non-triviality
            match &b.expect {
                Expect::Ok(_) => {
                    if let Case::Stream { lz11, tokens, ext, .. } = case {
                        cx.label_if(ext.is_some(), "well-formed:extended-header");
                        let toks = build_tokens(*lz11, tokens, cap);
                        let unusual = toks.iter().any(|t| matches!(t, Token::Ref { len, disp } if *disp == 1 || *len > 4096));
                        if unusual {
                            cx.nontrivial();
                            cx.label("well-formed:compressor-never-emits");
                        }
                        for t in &toks {
                            if let Token::Ref { len, disp } = *t {
                                cx.label_if(disp == 1, "ref:disp=1");
                                cx.label_if(disp == 4096, "ref:disp=4096");
                                cx.label_if(len > disp, "ref:overlapping");
                                if *lz11 {
                                    cx.label(match reflz::lz11_form(len) {
                                        1 => "ref:lz11-2-byte-form",
                                        2 => "ref:lz11-3-byte-form",
                                        _ => "ref:lz11-4-byte-form",
                                    });
                                }
                            }
                        }
                    }
                }
                Expect::Err => {
                    if matches!(b.class, "malformed:truncated" | "malformed:before-start" | "malformed:empty" | "malformed:shorter-than-header") {
                        cx.nontrivial();
                    }
                }
                Expect::NoPanicOnly => {}
            }
            match entry {
                Entry::Lz10 => cx.label("entry:LZ10"),
                Entry::Format10 => cx.label("entry:CompressionFormat::LZ10"),
                Entry::Lz13Bare => cx.label("entry:LZ13-bare"),
                Entry::Lz13Wrapped(_) => cx.label("entry:LZ13-wrapped"),
                Entry::Format13Wrapped(_) => cx.label("entry:CompressionFormat::LZ13"),
            }
        }
    }
}
