//! mila-verif: property-based testing machinery for thane98/mila (see /verif/DESIGN.md).
pub mod engine;
pub mod gen;
pub mod props;
pub mod refimpl;
