//! Reference pixel decoders written from the hardware format definitions (DESIGN 3.5):
//! PICA200 textures (8x8 tiles, Z-order inside a tile, little-endian texels with the
//! channels packed from the most significant bits down), ETC1 per the Khronos
//! OES_compressed_ETC1_RGB8_texture rules with the 3DS block order (2x2 blocks per tile,
//! 64-bit little-endian block words, 4-bit alpha plane first for ETC1A4), and the
//! GameCube RGB5A3 / CI8 (8x4 blocks) formats.

#[derive(Clone, Copy, Debug, PartialEq, Eq)]
pub enum Fmt {
    Rgba8 = 0,
    Rgba5551 = 2,
    Rgb565 = 3,
    Rgba4 = 4,
    La8 = 5,
    L8 = 7,
    A8 = 8,
    Etc1 = 12,
    Etc1A4 = 13,
}
pub const FORMATS: [Fmt; 9] = [Fmt::Rgba8, Fmt::Rgba5551, Fmt::Rgb565, Fmt::Rgba4, Fmt::La8, Fmt::L8, Fmt::A8, Fmt::Etc1, Fmt::Etc1A4];

impl Fmt {
    pub fn code(self) -> u32 {
        self as u32
    }
    pub fn name(self) -> &'static str {
        match self {
            Fmt::Rgba8 => "RGBA8",
            Fmt::Rgba5551 => "RGBA5551",
            Fmt::Rgb565 => "RGB565",
            Fmt::Rgba4 => "RGBA4",
            Fmt::La8 => "LA8",
            Fmt::L8 => "L8",
            Fmt::A8 => "A8",
            Fmt::Etc1 => "ETC1",
            Fmt::Etc1A4 => "ETC1A4",
        }
    }
    /// bits per pixel
    pub fn bpp(self) -> usize {
        match self {
            Fmt::Rgba8 => 32,
            Fmt::Rgba5551 | Fmt::Rgb565 | Fmt::Rgba4 | Fmt::La8 => 16,
            Fmt::L8 | Fmt::A8 | Fmt::Etc1A4 => 8,
            Fmt::Etc1 => 4,
        }
    }
    pub fn payload_len(self, w: usize, h: usize) -> usize {
        w * h * self.bpp() / 8
    }
    pub fn is_etc(self) -> bool {
        matches!(self, Fmt::Etc1 | Fmt::Etc1A4)
    }
}

/// what the statement allows for one output channel
#[derive(Clone, Copy, Debug, PartialEq)]
pub enum Chan {
    Exact(u8),
    /// source value `v` of `bits` bits: |out - v*255/(2^bits-1)| <= 255/(2^bits-1)
    Quant { v: u32, bits: u32 },
    /// no source bits, no rule (A8 colour): must merely be the same for every pixel
    Constant,
    /// ETC1 block whose differential sum leaves 0..=31: no colour oracle
    Unspecified,
}
impl Chan {
    pub fn admits(self, out: u8) -> bool {
        match self {
            Chan::Exact(e) => out == e,
            Chan::Quant { v, bits } => {
                let max = ((1u32 << bits) - 1) as f64;
                let e = v as f64 * 255.0 / max;
                (out as f64 - e).abs() <= 255.0 / max + 1e-9
            }
            Chan::Constant | Chan::Unspecified => true,
        }
    }
}

/// Z-order (Morton) index of (x, y) inside an 8x8 tile: x bits on the even positions, y bits on the odd ones
pub fn morton(x: usize, y: usize) -> usize {
    (x & 1) | (y & 1) << 1 | (x & 2) << 1 | (y & 2) << 2 | (x & 4) << 2 | (y & 4) << 3
}

fn q(v: u32, bits: u32) -> Chan {
    if bits == 8 {
        Chan::Exact(v as u8)
    } else {
        Chan::Quant { v, bits }
    }
}

const ETC_MODIFIERS: [[i32; 2]; 8] = [[2, 8], [5, 17], [9, 29], [13, 42], [18, 60], [24, 80], [33, 106], [47, 183]];

/// ETC1 texel (px, py) of a 64-bit block word, per the Khronos rules. None = differential sums out of range.
pub fn etc1_texel(word: u64, px: usize, py: usize) -> Option<[u8; 3]> {
    let diff = (word >> 33) & 1 == 1;
    let flip = (word >> 32) & 1 == 1;
    let (mut base1, mut base2) = ([0i32; 3], [0i32; 3]);
    for (c, shift) in [(0usize, 56u32), (1, 48), (2, 40)] {
        let byte = ((word >> shift) & 0xFF) as i32;
        if diff {
            let b = byte >> 3; // 5 bits
            let d3 = byte & 7;
            let d = if d3 >= 4 { d3 - 8 } else { d3 };
            let b2 = b + d;
            if !(0..=31).contains(&b2) {
                return None;
            }
            base1[c] = (b << 3) | (b >> 2);
            base2[c] = (b2 << 3) | (b2 >> 2);
        } else {
            let (b1, b2) = (byte >> 4, byte & 0xF);
            base1[c] = b1 * 17;
            base2[c] = b2 * 17;
        }
    }
    let table1 = ((word >> 37) & 7) as usize;
    let table2 = ((word >> 34) & 7) as usize;
    // flip = 0: two 2x4 sub-blocks side by side (sub-block 1 = columns 0..1); flip = 1: two 4x2 on top of each other
    let first = if flip { py < 2 } else { px < 2 };
    let (base, table) = if first { (base1, table1) } else { (base2, table2) };
    let bit = px * 4 + py; // column-major texel order
    let lsb = ((word >> bit) & 1) as usize;
    let msb = (word >> (16 + bit)) & 1;
    let m = ETC_MODIFIERS[table][lsb];
    let m = if msb == 1 { -m } else { m };
    Some([(base[0] + m).clamp(0, 255) as u8, (base[1] + m).clamp(0, 255) as u8, (base[2] + m).clamp(0, 255) as u8])
}

/// What the pixel at (x, y) of a w x h texture must be, given its payload.
pub fn pixel(fmt: Fmt, payload: &[u8], w: usize, _h: usize, x: usize, y: usize) -> [Chan; 4] {
    let tile = (y / 8) * (w / 8) + (x / 8);
    if fmt.is_etc() {
        let block = tile * 4 + ((y % 8) / 4) * 2 + ((x % 8) / 4);
        let bs = if fmt == Fmt::Etc1A4 { 16 } else { 8 };
        let b = &payload[block * bs..block * bs + bs];
        let (alpha_word, color_word) = if fmt == Fmt::Etc1A4 {
            (u64::from_le_bytes(b[0..8].try_into().unwrap()), u64::from_le_bytes(b[8..16].try_into().unwrap()))
        } else {
            (u64::MAX, u64::from_le_bytes(b[0..8].try_into().unwrap()))
        };
        let (px, py) = (x % 4, y % 4);
        let a = ((alpha_word >> ((px * 4 + py) * 4)) & 0xF) as u32;
        let alpha = if fmt == Fmt::Etc1A4 { Chan::Exact((a * 17) as u8) } else { Chan::Exact(255) };
        return match etc1_texel(color_word, px, py) {
            Some(c) => [Chan::Exact(c[0]), Chan::Exact(c[1]), Chan::Exact(c[2]), alpha],
            None => [Chan::Unspecified, Chan::Unspecified, Chan::Unspecified, alpha],
        };
    }
    let idx = tile * 64 + morton(x % 8, y % 8);
    let bytes = fmt.bpp() / 8;
    let mut v: u32 = 0;
    for i in 0..bytes {
        v |= (payload[idx * bytes + i] as u32) << (8 * i);
    }
    match fmt {
        Fmt::Rgba8 => [q(v >> 24, 8), q((v >> 16) & 0xFF, 8), q((v >> 8) & 0xFF, 8), q(v & 0xFF, 8)],
        Fmt::Rgba5551 => [q((v >> 11) & 0x1F, 5), q((v >> 6) & 0x1F, 5), q((v >> 1) & 0x1F, 5), q(v & 1, 1)],
        Fmt::Rgb565 => [q((v >> 11) & 0x1F, 5), q((v >> 5) & 0x3F, 6), q(v & 0x1F, 5), Chan::Exact(255)],
        Fmt::Rgba4 => [q((v >> 12) & 0xF, 4), q((v >> 8) & 0xF, 4), q((v >> 4) & 0xF, 4), q(v & 0xF, 4)],
        Fmt::La8 => [q(v >> 8, 8), q(v >> 8, 8), q(v >> 8, 8), q(v & 0xFF, 8)],
        Fmt::L8 => [q(v, 8), q(v, 8), q(v, 8), Chan::Exact(255)],
        Fmt::A8 => [Chan::Constant, Chan::Constant, Chan::Constant, q(v, 8)],
        _ => unreachable!(),
    }
}

/// compares a decoded RGBA image with the reference; returns the first violation as text
pub fn check_image(fmt: Fmt, payload: &[u8], w: usize, h: usize, out: &[u8]) -> Result<(), String> {
    if out.len() != 4 * w * h {
        return Err(format!("{} {w}x{h}: output has {} bytes, expected 4*w*h = {}", fmt.name(), out.len(), 4 * w * h));
    }
    let mut constant: Option<[u8; 3]> = None;
    for y in 0..h {
        for x in 0..w {
            let want = pixel(fmt, payload, w, h, x, y);
            let o = &out[(y * w + x) * 4..(y * w + x) * 4 + 4];
            for c in 0..4 {
                if !want[c].admits(o[c]) {
                    return Err(format!("{} {w}x{h}: pixel ({x},{y}) channel {} is {}, the format definition gives {:?} (pixel {:?})", fmt.name(), ["R", "G", "B", "A"][c], o[c], want[c], o));
                }
            }
            if want[0] == Chan::Constant {
                let rgb = [o[0], o[1], o[2]];
                match constant {
                    None => constant = Some(rgb),
                    Some(c) if c != rgb => return Err(format!("{} {w}x{h}: colour of pixel ({x},{y}) is {rgb:?} but {c:?} elsewhere (no source bits: must be constant)", fmt.name())),
                    _ => {}
                }
            }
        }
    }
    Ok(())
}

/// GameCube RGB5A3 (big-endian u16)
pub fn rgb5a3(v: u16) -> [Chan; 4] {
    let v = v as u32;
    if v & 0x8000 != 0 {
        [q((v >> 10) & 0x1F, 5), q((v >> 5) & 0x1F, 5), q(v & 0x1F, 5), Chan::Exact(255)]
    } else {
        [q((v >> 8) & 0xF, 4), q((v >> 4) & 0xF, 4), q(v & 0xF, 4), q((v >> 12) & 7, 3)]
    }
}

/// index of texel (x, y) in a CI8 image stored in 8x4 blocks, `w` pixels wide (blocks row-major)
pub fn ci8_index(w: usize, x: usize, y: usize) -> usize {
    let bw = (w + 7) / 8; // blocks per row
    let block = (y / 4) * bw + (x / 8);
    block * 32 + (y % 4) * 8 + (x % 8)
}
pub fn ci8_len(w: usize, h: usize) -> usize {
    ((w + 7) / 8) * ((h + 3) / 4) * 32
}

// ------------------------------------------------------------------------------------------------
// container builders (C19 single-texture CTPK / TPL; C20 all four containers with placements)

#[derive(Clone, Debug)]
pub struct Tex {
    pub name: String,
    pub w: usize,
    pub h: usize,
    pub fmt: Fmt,
    /// top-level image, exactly fmt.payload_len(w, h) bytes
    pub payload: Vec<u8>,
    /// bytes of the lower mip levels stored directly after the top level (CGFX only; empty = no mip chain)
    pub mip_tail: Vec<u8>,
}

fn p32(b: &mut Vec<u8>, off: usize, v: u32) {
    if b.len() < off + 4 {
        b.resize(off + 4, 0);
    }
    b[off..off + 4].copy_from_slice(&v.to_le_bytes());
}
fn p16(b: &mut Vec<u8>, off: usize, v: u16) {
    if b.len() < off + 2 {
        b.resize(off + 2, 0);
    }
    b[off..off + 2].copy_from_slice(&v.to_le_bytes());
}

/// byte ranges of the payloads inside a built container (for the truncation oracle)
#[derive(Clone, Debug, Default)]
pub struct BuiltContainer {
    pub bytes: Vec<u8>,
    /// (start, end) of every non-empty payload
    pub payload_ranges: Vec<(usize, usize)>,
    /// end of the region holding headers/tables that the reader needs before touching payloads
    pub non_default_placement: bool,
}

use crate::engine::prop::Mix64;

/// a region allocator: places blobs in a seeded order with seeded gaps after a fixed prefix
struct Placer {
    bytes: Vec<u8>,
    r: Mix64,
    gaps: bool,
}
impl Placer {
    fn place(&mut self, blob: &[u8], align: usize) -> usize {
        if self.gaps && self.r.below(3) == 0 {
            let g = self.r.below(24) as usize;
            self.bytes.extend(std::iter::repeat(0xCD).take(g));
        }
        while self.bytes.len() % align.max(1) != 0 {
            self.bytes.push(0);
        }
        let at = self.bytes.len();
        self.bytes.extend_from_slice(blob);
        at
    }
}

fn shuffled(n: usize, r: &mut Mix64, on: bool) -> Vec<usize> {
    let mut v: Vec<usize> = (0..n).collect();
    if on {
        for i in (1..n).rev() {
            let j = r.below(i as u64 + 1) as usize;
            v.swap(i, j);
        }
    }
    v
}

/// CTPK: 0x20-byte header, info table (0x20 per texture) directly after it, names anywhere,
/// payloads at header.texture_ptr + info.texture_ptr. `seed` = 0: the usual tight layout.
pub fn build_ctpk(texs: &[Tex], seed: u64, encode_name: &dyn Fn(&str) -> Vec<u8>) -> BuiltContainer {
    let mut r = Mix64(seed);
    let n = texs.len();
    let mut p = Placer { bytes: vec![0u8; 0x20 + 0x20 * n], r: Mix64(seed ^ 0x77), gaps: seed != 0 };
    // sections after the info table: names and payloads in a seeded order
    let names_first = seed == 0 || r.below(2) == 0;
    let mut name_at = vec![0usize; n];
    let mut data_at = vec![0usize; n];
    let order = shuffled(n, &mut r, seed != 0);
    let place_names = |p: &mut Placer, name_at: &mut Vec<usize>| {
        for i in &order {
            let mut b = encode_name(&texs[*i].name);
            b.push(0);
            name_at[*i] = p.place(&b, 1);
        }
    };
    if names_first {
        place_names(&mut p, &mut name_at);
    }
    let base = if seed == 0 { (p.bytes.len() + 0x7F) & !0x7F } else { p.bytes.len() + r.below(40) as usize };
    p.bytes.resize(base, 0);
    let order2 = shuffled(n, &mut r, seed != 0);
    let mut ranges = Vec::new();
    for i in &order2 {
        data_at[*i] = p.place(&texs[*i].payload, if seed == 0 { 0x80 } else { 1 });
        if !texs[*i].payload.is_empty() {
            ranges.push((data_at[*i], data_at[*i] + texs[*i].payload.len()));
        }
    }
    if !names_first {
        place_names(&mut p, &mut name_at);
    }
    let mut b = p.bytes;
    b[0..4].copy_from_slice(b"CTPK");
    p16(&mut b, 4, 1);
    p16(&mut b, 6, n as u16);
    p32(&mut b, 8, base as u32);
    let total: usize = texs.iter().map(|t| t.payload.len()).sum();
    p32(&mut b, 12, total as u32);
    for (i, t) in texs.iter().enumerate() {
        let o = 0x20 + 0x20 * i;
        p32(&mut b, o, name_at[i] as u32);
        p32(&mut b, o + 4, t.payload.len() as u32);
        p32(&mut b, o + 8, (data_at[i] - base) as u32);
        p32(&mut b, o + 12, t.fmt.code());
        p16(&mut b, o + 16, t.w as u16);
        p16(&mut b, o + 18, t.h as u16);
        b[o + 20] = 1; // mip level
    }
    BuiltContainer { bytes: b, payload_ranges: ranges, non_default_placement: seed != 0 }
}

/// BCH: header (short shape for compat byte <= 20, extended for >= 0x21), then contents / strings / commands / raw data
/// sections in a seeded order with gaps; the texture pointer table anywhere inside contents.
pub fn build_bch(texs: &[Tex], seed: u64) -> BuiltContainer {
    let mut r = Mix64(seed ^ 0xBC4);
    let n = texs.len();
    let extended = seed != 0 && r.below(2) == 0;
    let compat: u8 = if extended { 0x21 + r.below(3) as u8 } else { if seed == 0 { 7 } else { r.below(21) as u8 } };
    let header_len = if extended { 0x44 } else { 0x3C };
    // contents: 0x2C bytes of table header (pointer-table offset at +0x24, count at +0x28), records (0x20 each), pointer table
    let mut contents = vec![0u8; 0x2C];
    let ptr_table_first = seed != 0 && r.below(2) == 0;
    let mut rec_at = vec![0usize; n];
    let mut ptab_at = 0usize;
    let put_ptab = |contents: &mut Vec<u8>, ptab_at: &mut usize| {
        while contents.len() % 4 != 0 {
            contents.push(0);
        }
        *ptab_at = contents.len();
        contents.extend(std::iter::repeat(0).take(4 * n));
    };
    if ptr_table_first {
        put_ptab(&mut contents, &mut ptab_at);
    }
    for i in shuffled(n, &mut r, seed != 0) {
        if seed != 0 && r.below(3) == 0 {
            contents.extend(std::iter::repeat(0xAB).take(4 * r.below(4) as usize));
        }
        rec_at[i] = contents.len();
        contents.extend(std::iter::repeat(0).take(0x20));
    }
    if !ptr_table_first {
        put_ptab(&mut contents, &mut ptab_at);
    }
    // strings
    let mut strings: Vec<u8> = if seed != 0 { vec![b'x'; r.below(5) as usize] } else { Vec::new() };
    if !strings.is_empty() {
        strings.push(0);
    }
    let mut name_off = vec![0usize; n];
    for i in shuffled(n, &mut r, seed != 0) {
        name_off[i] = strings.len();
        strings.extend_from_slice(texs[i].name.as_bytes());
        strings.push(0);
    }
    // commands: 0x1C bytes per texture: h u16, w u16, 12 bytes, data offset u32, 4 bytes, format u32
    let mut commands: Vec<u8> = Vec::new();
    let mut cmd_off = vec![0usize; n];
    for i in shuffled(n, &mut r, seed != 0) {
        if seed != 0 && r.below(3) == 0 {
            commands.extend(std::iter::repeat(0xEF).take(4 * r.below(3) as usize));
        }
        cmd_off[i] = commands.len();
        commands.extend(std::iter::repeat(0).take(0x1C));
    }
    // raw data
    let mut raw: Vec<u8> = Vec::new();
    let mut data_off = vec![0usize; n];
    for i in shuffled(n, &mut r, seed != 0) {
        if seed != 0 && r.below(3) == 0 {
            raw.extend(std::iter::repeat(0x99).take(r.below(16) as usize));
        }
        data_off[i] = raw.len();
        raw.extend_from_slice(&texs[i].payload);
    }
    for i in 0..n {
        let t = &texs[i];
        p32(&mut contents, rec_at[i], cmd_off[i] as u32);
        p32(&mut contents, rec_at[i] + 28, name_off[i] as u32);
        p32(&mut contents, ptab_at + 4 * i, rec_at[i] as u32);
        p16(&mut commands, cmd_off[i], t.h as u16);
        p16(&mut commands, cmd_off[i] + 2, t.w as u16);
        p32(&mut commands, cmd_off[i] + 16, data_off[i] as u32);
        p32(&mut commands, cmd_off[i] + 24, t.fmt.code());
    }
    p32(&mut contents, 0x24, ptab_at as u32);
    p32(&mut contents, 0x28, n as u32);
    // lay the four sections out
    let mut p = Placer { bytes: vec![0u8; header_len], r: Mix64(seed ^ 0x5EC), gaps: seed != 0 };
    let mut addr = [0usize; 4];
    let secs: [&Vec<u8>; 4] = [&contents, &strings, &commands, &raw];
    for s in shuffled(4, &mut r, seed != 0) {
        addr[s] = p.place(secs[s], 4);
    }
    let mut b = p.bytes;
    b[0..4].copy_from_slice(b"BCH\0");
    b[4] = compat;
    b[5] = compat;
    p16(&mut b, 6, 0xA8B1);
    let mut o = 8;
    let mut put = |b: &mut Vec<u8>, v: usize| {
        p32(b, o, v as u32);
        o += 4;
    };
    put(&mut b, addr[0]);
    put(&mut b, addr[1]);
    put(&mut b, addr[2]);
    put(&mut b, addr[3]);
    if extended {
        put(&mut b, 0);
    }
    put(&mut b, 0); // relocation address
    put(&mut b, contents.len());
    put(&mut b, strings.len());
    put(&mut b, commands.len());
    put(&mut b, raw.len());
    if extended {
        put(&mut b, 0);
    }
    put(&mut b, 0);
    put(&mut b, 0);
    put(&mut b, 0);
    let ranges = (0..n).filter(|i| !texs[*i].payload.is_empty()).map(|i| (addr[3] + data_off[i], addr[3] + data_off[i] + texs[i].payload.len())).collect();
    BuiltContainer { bytes: b, payload_ranges: ranges, non_default_placement: seed != 0 }
}

/// CGFX: 0x14-byte header, DATA block directly after it (16 (count, self-relative offset) pairs; entry 1 = textures),
/// then the DICT, the TXOB objects in any order, then names and payloads in any order; every offset is relative to its
/// own position and points forward (unsigned).
pub fn build_cgfx(texs: &[Tex], seed: u64) -> BuiltContainer {
    let mut r = Mix64(seed ^ 0xC6F);
    let n = texs.len();
    let data_at = 0x14;
    let mut p = Placer { bytes: vec![0u8; 0x14 + 8 + 16 * 8], r: Mix64(seed ^ 0x321), gaps: seed != 0 };
    // blobs: DICT (0x1C + 0x10 per entry), TXOB (0x4C each), names, payloads
    let dict_len = 0x1C + 0x10 * n;
    #[derive(Clone, Copy, PartialEq)]
    enum B {
        Dict,
        Txob(usize),
        Name(usize),
        Payload(usize),
    }
    // self-relative offsets are unsigned: every target lies after the field that points to it.
    // => DICT first, then the TXOB objects (any order), then names and payloads (any order, interleaved)
    let mut blobs: Vec<B> = vec![B::Dict];
    for i in shuffled(n, &mut r, seed != 0) {
        blobs.push(B::Txob(i));
    }
    let mut tail: Vec<B> = Vec::new();
    for i in 0..n {
        tail.push(B::Name(i));
        tail.push(B::Payload(i));
    }
    for k in shuffled(tail.len(), &mut r, seed != 0) {
        blobs.push(tail[k]);
    }
    let order: Vec<usize> = (0..blobs.len()).collect();
    let (mut dict_at, mut txob_at, mut name_at, mut pay_at) = (0usize, vec![0usize; n], vec![0usize; n], vec![0usize; n]);
    for k in order {
        match blobs[k] {
            B::Dict => dict_at = p.place(&vec![0u8; dict_len], 4),
            B::Txob(i) => txob_at[i] = p.place(&[0u8; 0x4C], 4),
            B::Name(i) => {
                let mut b = texs[i].name.as_bytes().to_vec();
                b.push(0);
                name_at[i] = p.place(&b, 1);
            }
            B::Payload(i) => {
                let mut blob = texs[i].payload.clone();
                blob.extend_from_slice(&texs[i].mip_tail);
                pay_at[i] = p.place(&blob, if seed == 0 { 0x80 } else { 1 })
            }
        }
    }
    let mut b = p.bytes;
    b[0..4].copy_from_slice(b"CGFX");
    p16(&mut b, 4, 0xFEFF);
    p16(&mut b, 6, 0x14);
    p32(&mut b, 8, 0x0500_0000);
    let flen = b.len() as u32;
    p32(&mut b, 12, flen);
    p32(&mut b, 16, 1);
    b[data_at..data_at + 4].copy_from_slice(b"DATA");
    p32(&mut b, data_at + 4, (flen as usize - data_at) as u32);
    // entry 1 = textures
    let e1 = data_at + 8 + 8;
    p32(&mut b, e1, n as u32);
    p32(&mut b, e1 + 4, (dict_at - (e1 + 4)) as u32);
    // other entries: zero count, offset pointing at the DICT too (harmless)
    b[dict_at..dict_at + 4].copy_from_slice(b"DICT");
    p32(&mut b, dict_at + 4, dict_len as u32);
    p32(&mut b, dict_at + 8, n as u32);
    for i in 0..n {
        let e = dict_at + 0x1C + 0x10 * i;
        p32(&mut b, e + 8, (name_at[i] - (e + 8)) as u32);
        p32(&mut b, e + 12, (txob_at[i] - (e + 12)) as u32);
        let t = txob_at[i];
        p32(&mut b, t, 0x2000_0011);
        b[t + 4..t + 8].copy_from_slice(b"TXOB");
        p32(&mut b, t + 12, (name_at[i] - (t + 12)) as u32);
        p32(&mut b, t + 24, texs[i].h as u32);
        p32(&mut b, t + 28, texs[i].w as u32);
        p32(&mut b, t + 40, if texs[i].mip_tail.is_empty() { 1 } else { 3 });
        p32(&mut b, t + 52, texs[i].fmt.code());
        p32(&mut b, t + 68, (texs[i].payload.len() + texs[i].mip_tail.len()) as u32);
        p32(&mut b, t + 72, (pay_at[i] - (t + 72)) as u32);
    }
    let ranges = (0..n).filter(|i| !texs[*i].payload.is_empty()).map(|i| (pay_at[i], pay_at[i] + texs[i].payload.len() + texs[i].mip_tail.len())).collect();
    BuiltContainer { bytes: b, payload_ranges: ranges, non_default_placement: seed != 0 }
}

/// one CI8 image with an RGB5A3 palette
#[derive(Clone, Debug)]
pub struct TplImage {
    pub w: usize,
    pub h: usize,
    /// ci8_len(w, h) bytes in 8x4 blocks
    pub indices: Vec<u8>,
    /// big-endian RGB5A3 values
    pub palette: Vec<u16>,
}

/// TPL (big-endian): header (magic, count, image-table offset), image table (image header ptr, palette header ptr),
/// palette headers, image headers, palette data and image data anywhere.
pub fn build_tpl(images: &[TplImage], seed: u64) -> BuiltContainer {
    let mut r = Mix64(seed ^ 0x791);
    let n = images.len();
    let mut p = Placer { bytes: vec![0u8; 12], r: Mix64(seed ^ 0x11), gaps: seed != 0 };
    #[derive(Clone, Copy)]
    enum B {
        Table,
        ImgHdr(usize),
        PalHdr(usize),
        PalData(usize),
        ImgData(usize),
    }
    let mut blobs = vec![B::Table];
    for i in 0..n {
        blobs.extend([B::PalHdr(i), B::ImgHdr(i), B::PalData(i), B::ImgData(i)]);
    }
    let order = shuffled(blobs.len(), &mut r, seed != 0);
    let (mut table_at, mut ih, mut ph, mut pd, mut id) = (0usize, vec![0usize; n], vec![0usize; n], vec![0usize; n], vec![0usize; n]);
    for k in order {
        match blobs[k] {
            B::Table => table_at = p.place(&vec![0u8; 8 * n], 4),
            B::ImgHdr(i) => ih[i] = p.place(&[0u8; 0x24], 4),
            B::PalHdr(i) => ph[i] = p.place(&[0u8; 0x0C], 4),
            B::PalData(i) => {
                let mut b = Vec::new();
                for v in &images[i].palette {
                    b.extend_from_slice(&v.to_be_bytes());
                }
                pd[i] = p.place(&b, if seed == 0 { 0x20 } else { 2 });
            }
            B::ImgData(i) => id[i] = p.place(&images[i].indices, if seed == 0 { 0x20 } else { 1 }),
        }
    }
    let mut b = p.bytes;
    let be32 = |b: &mut Vec<u8>, off: usize, v: u32| b[off..off + 4].copy_from_slice(&v.to_be_bytes());
    let be16 = |b: &mut Vec<u8>, off: usize, v: u16| b[off..off + 2].copy_from_slice(&v.to_be_bytes());
    be32(&mut b, 0, 0x0020_AF30);
    be32(&mut b, 4, n as u32);
    be32(&mut b, 8, table_at as u32);
    for i in 0..n {
        be32(&mut b, table_at + 8 * i, ih[i] as u32);
        be32(&mut b, table_at + 8 * i + 4, ph[i] as u32);
        be16(&mut b, ph[i], images[i].palette.len() as u16);
        be32(&mut b, ph[i] + 4, 2); // RGB5A3
        be32(&mut b, ph[i] + 8, pd[i] as u32);
        be16(&mut b, ih[i], images[i].h as u16);
        be16(&mut b, ih[i] + 2, images[i].w as u16);
        be32(&mut b, ih[i] + 4, 9); // CI8
        be32(&mut b, ih[i] + 8, id[i] as u32);
        be32(&mut b, ih[i] + 20, 1);
        be32(&mut b, ih[i] + 24, 1);
    }
    let mut ranges: Vec<(usize, usize)> = Vec::new();
    for i in 0..n {
        if !images[i].indices.is_empty() {
            ranges.push((id[i], id[i] + images[i].indices.len()));
        }
    }
    BuiltContainer { bytes: b, payload_ranges: ranges, non_default_placement: seed != 0 }
}
