pub mod reflz;
