pub mod refbin;
pub mod reflz;
