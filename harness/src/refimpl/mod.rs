pub mod refbin;
pub mod reflz;
pub mod reftex;
