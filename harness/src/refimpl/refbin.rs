//! Independent bin-archive reader and writers, written from the format (DESIGN 3.3):
//!
//! file   := header(0x20) data pointer-table label-table text
//! header := file_size u32, data_size u32, pointer_count u32, label_count u32, 16 zero bytes
//! pointer-table entry := address of a 4-byte cell inside data. The cell's value v is an
//!     internal pointer (target v <= data_size) or, if v > data_size, the position
//!     (relative to 0x20) of a NUL-terminated Shift-JIS string.
//! label-table entry := address u32 (<= data_size), offset u32 of the NUL-terminated name
//!     relative to the start of the text section (0x20 + data_size + 4*np + 8*nl).
use crate::engine::prop::Mix64;
use crate::gen::archive::{ArchiveContent, Cell};
use crate::gen::strings::{sjis_decode, sjis_encode};
use std::collections::BTreeMap;

#[derive(Clone, Debug, PartialEq, Eq)]
pub enum RefCell {
    Pointer(u32),
    /// decoded string, file offset of its first byte
    Str(String, usize),
}

#[derive(Clone, Debug)]
pub struct RefImage {
    pub file_size_field: u32,
    pub data: Vec<u8>,
    pub np: usize,
    pub nl: usize,
    /// pointer table in table order
    pub pointer_table: Vec<u32>,
    /// label table in table order: (address, name, name offset)
    pub labels: Vec<(u32, String, u32)>,
    pub cells: BTreeMap<u32, RefCell>,
    /// file offset where the text section starts
    pub text_start: usize,
    pub reserved_zero: bool,
    /// well-formedness defects (empty = well-formed)
    pub defects: Vec<String>,
}

fn rd(bytes: &[u8], off: usize, be: bool) -> Option<u32> {
    let b = bytes.get(off..off + 4)?;
    let a = [b[0], b[1], b[2], b[3]];
    Some(if be { u32::from_be_bytes(a) } else { u32::from_le_bytes(a) })
}

fn cstr_at(bytes: &[u8], off: usize) -> Option<&[u8]> {
    let rest = bytes.get(off..)?;
    let n = rest.iter().position(|b| *b == 0)?;
    Some(&rest[..n])
}

/// Parses an image; structural impossibilities (tables outside the file) are `Err`,
/// everything else is collected in `defects`.
pub fn parse(bytes: &[u8], be: bool) -> Result<RefImage, String> {
    if bytes.len() < 0x20 {
        return Err(format!("file of {} bytes is shorter than the 0x20-byte header", bytes.len()));
    }
    let file_size_field = rd(bytes, 0, be).unwrap();
    let data_size = rd(bytes, 4, be).unwrap() as usize;
    let np = rd(bytes, 8, be).unwrap() as usize;
    let nl = rd(bytes, 12, be).unwrap() as usize;
    let mut defects = Vec::new();
    if file_size_field as usize != bytes.len() {
        defects.push(format!("header file size {} != actual {}", file_size_field, bytes.len()));
    }
    let total = 0x20u128 + data_size as u128 + 4 * np as u128 + 8 * nl as u128;
    if total > bytes.len() as u128 {
        return Err(format!("header declares data {data_size} + {np} pointers + {nl} labels = {total} bytes, file has {}", bytes.len()));
    }
    let reserved_zero = bytes[0x10..0x20].iter().all(|b| *b == 0);
    let data = bytes[0x20..0x20 + data_size].to_vec();
    let ptab = 0x20 + data_size;
    let ltab = ptab + 4 * np;
    let text_start = ltab + 8 * nl;
    let mut pointer_table = Vec::new();
    let mut cells = BTreeMap::new();
    for i in 0..np {
        let addr = rd(bytes, ptab + 4 * i, be).unwrap();
        pointer_table.push(addr);
        if addr as usize + 4 > data_size {
            defects.push(format!("pointer table entry {i}: cell address {addr} + 4 exceeds data size {data_size}"));
            continue;
        }
        let v = rd(&data, addr as usize, be).unwrap();
        let cell = if v as usize > data_size {
            let off = 0x20 + v as usize;
            if off < text_start {
                defects.push(format!("string pointer at cell {addr} has value {v}: inside the tables, before the text section"));
            }
            match cstr_at(bytes, off) {
                Some(raw) => match sjis_decode(raw) {
                    Some(s) => RefCell::Str(s, off),
                    None => {
                        defects.push(format!("string at file offset {off} (cell {addr}) is not valid Shift-JIS"));
                        RefCell::Str(String::from_utf8_lossy(raw).to_string(), off)
                    }
                },
                None => {
                    defects.push(format!("string pointer at cell {addr} (value {v}): no NUL-terminated string inside the file at offset {off}"));
                    continue;
                }
            }
        } else {
            RefCell::Pointer(v)
        };
        if cells.insert(addr, cell).is_some() {
            defects.push(format!("cell {addr} listed twice in the pointer table"));
        }
    }
    let mut labels = Vec::new();
    for i in 0..nl {
        let addr = rd(bytes, ltab + 8 * i, be).unwrap();
        let off = rd(bytes, ltab + 8 * i + 4, be).unwrap();
        if addr as usize > data_size {
            defects.push(format!("label table entry {i}: address {addr} beyond data size {data_size}"));
        }
        match cstr_at(bytes, text_start + off as usize) {
            Some(raw) => match sjis_decode(raw) {
                Some(s) => labels.push((addr, s, off)),
                None => {
                    defects.push(format!("label name at text offset {off} is not valid Shift-JIS"));
                    labels.push((addr, String::from_utf8_lossy(raw).to_string(), off));
                }
            },
            None => defects.push(format!("label table entry {i}: no NUL-terminated name inside the file at text offset {off}")),
        }
    }
    Ok(RefImage { file_size_field, data, np, nl, pointer_table, labels, cells, text_start, reserved_zero, defects })
}

impl RefImage {
    pub fn labels_by_address(&self) -> BTreeMap<u32, Vec<String>> {
        let mut m: BTreeMap<u32, Vec<String>> = BTreeMap::new();
        for (a, n, _) in &self.labels {
            m.entry(*a).or_default().push(n.clone());
        }
        m
    }
}

fn wr(out: &mut Vec<u8>, v: u32, be: bool) {
    out.extend_from_slice(&if be { v.to_be_bytes() } else { v.to_le_bytes() });
}
fn patch(data: &mut [u8], addr: usize, v: u32, be: bool) {
    data[addr..addr + 4].copy_from_slice(&if be { v.to_be_bytes() } else { v.to_le_bytes() });
}

/// The canonical image of a content without c-strings (property C02).
/// `bucket_order`: for big-endian, the order of label addresses to use among buckets whose name
/// lists are identical (None = ascending address).
pub fn write_canonical(c: &ArchiveContent, bucket_order: Option<&[u32]>) -> Vec<u8> {
    let be = c.big_endian;
    let mut data = c.data.clone();
    // label buckets in table order
    let mut buckets: Vec<(&u32, &Vec<String>)> = c.labels.iter().collect();
    if be {
        buckets.sort_by(|a, b| {
            a.1.cmp(b.1).then_with(|| match bucket_order {
                Some(order) => {
                    let pa = order.iter().position(|x| x == a.0).unwrap_or(usize::MAX);
                    let pb = order.iter().position(|x| x == b.0).unwrap_or(usize::MAX);
                    pa.cmp(&pb)
                }
                None => a.0.cmp(b.0),
            })
        });
    }
    // text section: label names in table order, then strings in first-use (address) order; each distinct string once
    let mut text: Vec<u8> = Vec::new();
    let mut offsets: BTreeMap<String, usize> = BTreeMap::new();
    let mut intern = |s: &str, text: &mut Vec<u8>| -> usize {
        if let Some(o) = offsets.get(s) {
            return *o;
        }
        let o = text.len();
        text.extend_from_slice(&sjis_encode(s).expect("content strings are Shift-JIS encodable"));
        text.push(0);
        offsets.insert(s.to_string(), o);
        o
    };
    let mut label_entries: Vec<(u32, u32)> = Vec::new();
    for (addr, names) in &buckets {
        for n in names.iter() {
            let o = intern(n, &mut text);
            label_entries.push((**addr, o as u32));
        }
    }
    let internal: Vec<(u32, u32)> = c.cells.iter().filter_map(|(a, x)| if let Cell::Pointer(t) = x { Some((*a, *t)) } else { None }).collect();
    let strings: Vec<(u32, &String)> = c.cells.iter().filter_map(|(a, x)| if let Cell::Str(s) = x { Some((*a, s)) } else { None }).collect();
    let np = internal.len() + strings.len();
    let nl = label_entries.len();
    let text_start = c.data.len() + 4 * np + 8 * nl;
    // string pointers grouped by string (offset) in order of first use
    let mut groups: Vec<(usize, Vec<u32>)> = Vec::new();
    for (addr, s) in &strings {
        let o = intern(s, &mut text);
        patch(&mut data, *addr as usize, (text_start + o) as u32, be);
        match groups.iter_mut().find(|g| g.0 == o) {
            Some(g) => g.1.push(*addr),
            None => groups.push((o, vec![*addr])),
        }
    }
    for (addr, t) in &internal {
        patch(&mut data, *addr as usize, *t, be);
    }
    let mut out = Vec::new();
    let file_size = 0x20 + text_start + text.len();
    wr(&mut out, file_size as u32, be);
    wr(&mut out, c.data.len() as u32, be);
    wr(&mut out, np as u32, be);
    wr(&mut out, nl as u32, be);
    out.extend_from_slice(&[0u8; 16]);
    out.extend_from_slice(&data);
    for (addr, _) in &internal {
        wr(&mut out, *addr, be);
    }
    for (_, addrs) in &groups {
        for a in addrs {
            wr(&mut out, *a, be);
        }
    }
    for (a, o) in &label_entries {
        wr(&mut out, *a, be);
        wr(&mut out, *o, be);
    }
    out.extend_from_slice(&text);
    out
}

/// Any *conforming* image of the same content (no c-strings): pointer table permuted, label table
/// permuted (per-address order kept), strings placed in any order, duplicated per use or shared,
/// a string that is a suffix of another one pointing into it.
pub fn write_layout(c: &ArchiveContent, layout_seed: u64) -> Vec<u8> {
    write_layout_mode(c, layout_seed, false)
}

/// `coincide`: a conforming layout built so that two unrelated numbers of the file are EQUAL - the text-relative offset of the first label
/// name and the data-relative value of a string pointer (every use gets its own copy, the cells' strings come first, NUL padding - empty
/// strings - moves the label names to that offset).  A reader that keys strings by "offset" across both tables would mix them up.
pub fn write_layout_mode(c: &ArchiveContent, layout_seed: u64, coincide: bool) -> Vec<u8> {
    let be = c.big_endian;
    let mut r = Mix64(layout_seed ^ 0x1A70_07);
    let mut data = c.data.clone();
    // uses: every label name and every string cell
    #[derive(Clone)]
    enum Use {
        Label(u32, usize),
        Cell(u32),
    }
    let mut uses: Vec<(Use, String)> = Vec::new();
    for (a, names) in &c.labels {
        for (i, n) in names.iter().enumerate() {
            uses.push((Use::Label(*a, i), n.clone()));
        }
    }
    for (a, x) in &c.cells {
        if let Cell::Str(s) = x {
            uses.push((Use::Cell(*a), s.clone()));
        }
    }
    let dup_mode = r.below(3); // 0 = every distinct string once, 1 = one copy per use, 2 = mixed
    let dup_mode = if coincide { 1 } else { dup_mode };
    let share_tails = r.below(2) == 0 && !coincide;
    // decide the copies to store
    let mut copies: Vec<Vec<u8>> = Vec::new(); // encoded, without NUL
    let mut use_copy: Vec<usize> = Vec::new();
    for (_, s) in &uses {
        let enc = sjis_encode(s).expect("encodable");
        let existing = copies.iter().position(|c| *c == enc);
        let fresh = match dup_mode {
            0 => existing.is_none(),
            1 => true,
            _ => existing.is_none() || r.below(2) == 0,
        };
        if fresh {
            copies.push(enc);
            use_copy.push(copies.len() - 1);
        } else {
            use_copy.push(existing.unwrap());
        }
    }
    // order of the copies in the text section
    let mut order: Vec<usize> = (0..copies.len()).collect();
    for i in (1..order.len()).rev() {
        let j = r.below(i as u64 + 1) as usize;
        order.swap(i, j);
    }
    let mut text: Vec<u8> = Vec::new();
    let mut copy_off: Vec<usize> = vec![0; copies.len()];
    let mut padded = !coincide;
    if coincide {
        // one copy per use: copy i belongs to use i; the cells' strings first, then the label names
        order.sort_by_key(|ci| matches!(uses[*ci].0, Use::Label(..)));
    }
    for ci in &order {
        if !padded && matches!(uses[*ci].0, Use::Label(..)) {
            padded = true;
            let n_cell_str = uses.iter().filter(|(u, _)| matches!(u, Use::Cell(_))).count();
            let n_ptr = c.cells.values().filter(|x| matches!(x, Cell::Pointer(_))).count() + n_cell_str;
            let text_start = c.data.len() + 4 * n_ptr + 8 * (uses.len() - n_cell_str);
            // the pointer value of the LAST cell string placed so far
            if let Some(last) = order.iter().take_while(|k| **k != *ci).last() {
                let v = text_start + copy_off[*last];
                if v >= text.len() && v < (1 << 20) {
                    text.resize(v, 0);
                }
            }
        }
        copy_off[*ci] = text.len();
        text.extend_from_slice(&copies[*ci]);
        text.push(0);
    }
    // tail sharing: a use whose bytes are a proper suffix of some stored copy may point into it.
    // (only when the suffix starts on a character boundary of that copy: verify by decoding)
    let mut use_off: Vec<usize> = use_copy.iter().map(|ci| copy_off[*ci]).collect();
    if share_tails {
        for (ui, (_, s)) in uses.iter().enumerate() {
            let enc = sjis_encode(s).unwrap();
            for (ci, cp) in copies.iter().enumerate() {
                if cp.len() > enc.len() && cp.ends_with(&enc) && r.below(2) == 0 {
                    let start = cp.len() - enc.len();
                    if sjis_decode(&cp[start..]).as_deref() == Some(s.as_str()) && sjis_decode(&cp[..start]).is_some() {
                        use_off[ui] = copy_off[ci] + start;
                        break;
                    }
                }
            }
        }
    }
    let internal: Vec<(u32, u32)> = c.cells.iter().filter_map(|(a, x)| if let Cell::Pointer(t) = x { Some((*a, *t)) } else { None }).collect();
    let nstr = uses.iter().filter(|(u, _)| matches!(u, Use::Cell(_))).count();
    let np = internal.len() + nstr;
    let nl = uses.len() - nstr;
    let text_start = c.data.len() + 4 * np + 8 * nl;
    let mut ptab: Vec<u32> = internal.iter().map(|(a, _)| *a).collect();
    for (a, t) in &internal {
        patch(&mut data, *a as usize, *t, be);
    }
    let mut label_entries: Vec<(u32, usize, u32)> = Vec::new(); // addr, index within address, offset
    for (ui, (u, _)) in uses.iter().enumerate() {
        match u {
            Use::Cell(a) => {
                patch(&mut data, *a as usize, (text_start + use_off[ui]) as u32, be);
                ptab.push(*a);
            }
            Use::Label(a, i) => label_entries.push((*a, *i, use_off[ui] as u32)),
        }
    }
    // permute the pointer table freely
    for i in (1..ptab.len()).rev() {
        let j = r.below(i as u64 + 1) as usize;
        ptab.swap(i, j);
    }
    // permute the label table, then restore per-address order
    for i in (1..label_entries.len()).rev() {
        let j = r.below(i as u64 + 1) as usize;
        label_entries.swap(i, j);
    }
    let mut per_addr: BTreeMap<u32, Vec<(usize, u32)>> = BTreeMap::new();
    for (a, i, o) in &label_entries {
        per_addr.entry(*a).or_default().push((*i, *o));
    }
    for v in per_addr.values_mut() {
        v.sort();
        v.reverse(); // pop from the back = ascending index
    }
    let label_entries: Vec<(u32, u32)> = label_entries.iter().map(|(a, _, _)| (*a, per_addr.get_mut(a).unwrap().pop().unwrap().1)).collect();
    let mut out = Vec::new();
    let file_size = 0x20 + text_start + text.len();
    wr(&mut out, file_size as u32, be);
    wr(&mut out, c.data.len() as u32, be);
    wr(&mut out, np as u32, be);
    wr(&mut out, nl as u32, be);
    out.extend_from_slice(&[0u8; 16]);
    out.extend_from_slice(&data);
    for a in &ptab {
        wr(&mut out, *a, be);
    }
    for (a, o) in &label_entries {
        wr(&mut out, *a, be);
        wr(&mut out, *o, be);
    }
    out.extend_from_slice(&text);
    out
}
