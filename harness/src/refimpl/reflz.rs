//! Reference LZ10 / LZ11 codec written from the format description (GBATEK "LZ77" / the
//! 0x11 extension), independent of mila and of nintendo-lz.
//!
//! stream  := header token-groups
//! header  := type(0x10|0x11) len24-le
//! group   := flags(8 bits, MSB first; 0 = literal, 1 = reference) token{1..8}
//! LZ10 ref: 2 bytes  LLLL DDDD DDDDDDDD            len = L+3 (3..=18),            disp = D+1
//! LZ11 ref: 2 bytes  LLLL DDDD DDDDDDDD  (L >= 2)  len = L+1 (3..=16)
//!           3 bytes  0000 LLLL LLLL DDDD DDDDDDDD  len = L+0x11 (17..=272)
//!           4 bytes  0001 LLLL LLLLLLLL LLLL DDDD DDDDDDDD  len = L+0x111 (273..=65808)
//! a reference copies `len` bytes starting `disp` bytes back, byte by byte (may overlap).
use serde::{Deserialize, Serialize};

#[derive(Clone, Copy, Debug, PartialEq, Eq, Hash, Serialize, Deserialize)]
pub enum Kind {
    Lz10,
    Lz11,
}
impl Kind {
    pub fn type_byte(self) -> u8 {
        match self {
            Kind::Lz10 => 0x10,
            Kind::Lz11 => 0x11,
        }
    }
    pub fn max_len(self) -> usize {
        match self {
            Kind::Lz10 => 18,
            Kind::Lz11 => 65808,
        }
    }
}

#[derive(Clone, Copy, Debug, PartialEq, Eq, Hash, Serialize, Deserialize)]
pub enum Token {
    Lit(u8),
    Ref { len: u32, disp: u32 },
}

/// The executable meaning of a token list. Returns None if a reference reaches before the start.
pub fn expand(tokens: &[Token]) -> Option<Vec<u8>> {
    let mut out: Vec<u8> = Vec::new();
    for t in tokens {
        match *t {
            Token::Lit(b) => out.push(b),
            Token::Ref { len, disp } => {
                let disp = disp as usize;
                if disp == 0 || disp > out.len() {
                    return None;
                }
                let start = out.len() - disp;
                for i in 0..len as usize {
                    let v = out[start + i];
                    out.push(v);
                }
            }
        }
    }
    Some(out)
}

/// Which LZ11 length form a length needs (1 = 2-byte, 2 = 3-byte, 3 = 4-byte)
pub fn lz11_form(len: u32) -> u8 {
    if len <= 16 {
        1
    } else if len <= 272 {
        2
    } else {
        3
    }
}

fn push_ref(kind: Kind, out: &mut Vec<u8>, len: u32, disp: u32) {
    let d = disp - 1;
    match kind {
        Kind::Lz10 => {
            assert!((3..=18).contains(&len) && (1..=4096).contains(&disp));
            out.push((((len - 3) << 4) | (d >> 8)) as u8);
            out.push(d as u8);
        }
        Kind::Lz11 => {
            assert!((3..=65808).contains(&len) && (1..=4096).contains(&disp));
            match lz11_form(len) {
                1 => {
                    out.push((((len - 1) << 4) | (d >> 8)) as u8);
                    out.push(d as u8);
                }
                2 => {
                    let l = len - 0x11;
                    out.push((l >> 4) as u8);
                    out.push((((l & 0xF) << 4) | (d >> 8)) as u8);
                    out.push(d as u8);
                }
                _ => {
                    let l = len - 0x111;
                    out.push((0x10 | (l >> 12)) as u8);
                    out.push((l >> 4) as u8);
                    out.push((((l & 0xF) << 4) | (d >> 8)) as u8);
                    out.push(d as u8);
                }
            }
        }
    }
}

/// Lays a token list out as a stream whose header declares `declared` bytes.
pub fn encode_with_len(kind: Kind, tokens: &[Token], declared: usize) -> Vec<u8> {
    let mut out = vec![kind.type_byte(), declared as u8, (declared >> 8) as u8, (declared >> 16) as u8];
    for group in tokens.chunks(8) {
        let flag_pos = out.len();
        out.push(0);
        for (i, t) in group.iter().enumerate() {
            match *t {
                Token::Lit(b) => out.push(b),
                Token::Ref { len, disp } => {
                    out[flag_pos] |= 0x80 >> i;
                    push_ref(kind, &mut out, len, disp);
                }
            }
        }
    }
    out
}

/// LZ11 stream in the extended-header form (zero 24-bit length, then a 32-bit length)
pub fn encode_extended(tokens: &[Token], declared: u32) -> Vec<u8> {
    let body = encode_with_len(Kind::Lz11, tokens, 0);
    let mut out = vec![0x11, 0, 0, 0];
    out.extend_from_slice(&declared.to_le_bytes());
    out.extend_from_slice(&body[4..]);
    out
}

pub fn encode(kind: Kind, tokens: &[Token]) -> Vec<u8> {
    let n = expand(tokens).map(|v| v.len()).unwrap_or(0);
    encode_with_len(kind, tokens, n)
}

#[derive(Clone, Debug, PartialEq, Eq)]
pub enum Malformed {
    /// fewer than 4 bytes (includes the empty input)
    ShorterThanHeader,
    BadType(u8),
    /// LZ11 extended-length header declaring more than EXTENDED_LIMIT bytes: not examined further
    ExtendedHeader,
    /// input ended before `declared` bytes were produced
    Truncated { produced: usize, declared: usize },
    /// a reference reaches before the start of the output
    BeforeStart { produced: usize, disp: usize, at: usize },
    /// the last reference produces more than the declared length
    Overshoot { produced: usize, len: usize, declared: usize },
    /// bytes left over after the declared length was produced
    Trailing { consumed: usize, total: usize },
}

/// extended-header streams declaring more than this are not walked by the reference reader (no claim is made)
pub const EXTENDED_LIMIT: usize = 1 << 26;

#[derive(Clone, Debug)]
pub struct Parsed {
    pub declared: usize,
    pub tokens: Vec<Token>,
    pub consumed: usize,
    /// number of flag bytes read
    pub groups: usize,
}

/// Strict reader: accepts exactly the well-formed, exactly-terminated streams of `kind`.
pub fn parse(kind: Kind, bytes: &[u8]) -> Result<Parsed, Malformed> {
    if bytes.len() < 4 {
        return Err(Malformed::ShorterThanHeader);
    }
    if bytes[0] != kind.type_byte() {
        return Err(Malformed::BadType(bytes[0]));
    }
    let mut declared = bytes[1] as usize | (bytes[2] as usize) << 8 | (bytes[3] as usize) << 16;
    let mut pos = 4usize;
    if declared == 0 && kind == Kind::Lz11 {
        // extended-length form of the 0x11 header: a zero 24-bit length is followed by a 32-bit length
        if bytes.len() < 8 {
            return Err(Malformed::ShorterThanHeader);
        }
        declared = u32::from_le_bytes([bytes[4], bytes[5], bytes[6], bytes[7]]) as usize;
        pos = 8;
        if declared > EXTENDED_LIMIT {
            return Err(Malformed::ExtendedHeader);
        }
    }
    let mut produced = 0usize;
    let mut tokens = Vec::new();
    let mut groups = 0;
    let trunc = |produced| Malformed::Truncated { produced, declared };
    while produced < declared {
        let flags = *bytes.get(pos).ok_or(trunc(produced))?;
        pos += 1;
        groups += 1;
        for bit in 0..8 {
            if produced >= declared {
                break;
            }
            if flags & (0x80 >> bit) == 0 {
                let b = *bytes.get(pos).ok_or(trunc(produced))?;
                pos += 1;
                tokens.push(Token::Lit(b));
                produced += 1;
            } else {
                let at = pos;
                let b0 = *bytes.get(pos).ok_or(trunc(produced))? as usize;
                let b1 = *bytes.get(pos + 1).ok_or(trunc(produced))? as usize;
                let (len, disp);
                match kind {
                    Kind::Lz10 => {
                        len = (b0 >> 4) + 3;
                        disp = (((b0 & 0xF) << 8) | b1) + 1;
                        pos += 2;
                    }
                    Kind::Lz11 => match b0 >> 4 {
                        0 => {
                            let b2 = *bytes.get(pos + 2).ok_or(trunc(produced))? as usize;
                            len = (((b0 & 0xF) << 4) | (b1 >> 4)) + 0x11;
                            disp = (((b1 & 0xF) << 8) | b2) + 1;
                            pos += 3;
                        }
                        1 => {
                            let b2 = *bytes.get(pos + 2).ok_or(trunc(produced))? as usize;
                            let b3 = *bytes.get(pos + 3).ok_or(trunc(produced))? as usize;
                            len = (((b0 & 0xF) << 12) | (b1 << 4) | (b2 >> 4)) + 0x111;
                            disp = (((b2 & 0xF) << 8) | b3) + 1;
                            pos += 4;
                        }
                        n => {
                            len = n + 1;
                            disp = (((b0 & 0xF) << 8) | b1) + 1;
                            pos += 2;
                        }
                    },
                }
                if disp > produced {
                    return Err(Malformed::BeforeStart { produced, disp, at });
                }
                if produced + len > declared {
                    return Err(Malformed::Overshoot { produced, len, declared });
                }
                tokens.push(Token::Ref { len: len as u32, disp: disp as u32 });
                produced += len;
            }
        }
    }
    if pos != bytes.len() {
        return Err(Malformed::Trailing { consumed: pos, total: bytes.len() });
    }
    Ok(Parsed { declared, tokens, consumed: pos, groups })
}
