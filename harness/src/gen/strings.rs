//! String domains (DESIGN 3.1).
use encoding_rs::SHIFT_JIS;
use proptest::prelude::*;
use std::sync::OnceLock;

pub struct SjisDomain {
    pub ascii: Vec<char>,
    pub control: Vec<char>,
    pub halfwidth: Vec<char>,
    pub double: Vec<char>,
    /// double-byte characters whose trail byte is an ASCII-looking byte (0x5C '\\', 0x7C '|', 0x40..0x7E)
    pub traps: Vec<char>,
    pub all: std::collections::BTreeSet<char>,
}

pub fn sjis_decode(bytes: &[u8]) -> Option<String> {
    let (s, err) = SHIFT_JIS.decode_without_bom_handling(bytes);
    if err {
        None
    } else {
        Some(s.into_owned())
    }
}
pub fn sjis_encode(s: &str) -> Option<Vec<u8>> {
    let (b, _, err) = SHIFT_JIS.encode(s);
    if err {
        None
    } else {
        Some(b.into_owned())
    }
}

/// The code points c != NUL that are the decoding of one valid Shift-JIS byte sequence and
/// satisfy decode(encode(c)) == c ("the codec represents them losslessly").
pub fn sjis_domain() -> &'static SjisDomain {
    static D: OnceLock<SjisDomain> = OnceLock::new();
    D.get_or_init(|| {
        let mut d = SjisDomain { ascii: vec![], control: vec![], halfwidth: vec![], double: vec![], traps: vec![], all: Default::default() };
        let mut consider = |bytes: &[u8], d: &mut SjisDomain| {
            if let Some(s) = sjis_decode(bytes) {
                let mut it = s.chars();
                if let (Some(c), None) = (it.next(), it.next()) {
                    if c == '\0' || c == '\u{FFFD}' {
                        return;
                    }
                    let mut buf = [0u8; 4];
                    let cs: &str = c.encode_utf8(&mut buf);
                    if let Some(enc) = sjis_encode(cs) {
                        if sjis_decode(&enc).as_deref() == Some(cs) && !enc.contains(&0) {
                            if d.all.insert(c) {
                                if bytes.len() == 1 {
                                    if (0x20..0x7F).contains(&bytes[0]) {
                                        d.ascii.push(c)
                                    } else if bytes[0] < 0x20 || bytes[0] == 0x7F || bytes[0] == 0x80 {
                                        d.control.push(c)
                                    } else {
                                        d.halfwidth.push(c)
                                    }
                                } else {
                                    d.double.push(c);
                                    if enc.len() == 2 && (0x40..0x7F).contains(&enc[1]) {
                                        d.traps.push(c);
                                    }
                                }
                            }
                        }
                    }
                }
            }
        };
        for b in 1u16..=255 {
            consider(&[b as u8], &mut d);
        }
        for lead in 0x81u16..=0xFC {
            for trail in 0x40u16..=0xFC {
                consider(&[lead as u8, trail as u8], &mut d);
            }
        }
        d
    })
}

pub fn is_sjis_lossless(s: &str) -> bool {
    let d = sjis_domain();
    s.chars().all(|c| d.all.contains(&c))
}

/// one character of the SJIS-lossless domain, weighted by class
pub fn sjis_char() -> BoxedStrategy<char> {
    let d = sjis_domain();
    prop_oneof![
        6 => proptest::sample::select(d.ascii.clone()),
        2 => proptest::sample::select(d.halfwidth.clone()),
        3 => proptest::sample::select(d.double.clone()),
        2 => proptest::sample::select(d.traps.clone()),
        1 => proptest::sample::select(d.control.clone()),
    ]
    .boxed()
}

/// SJIS-lossless, NUL-free string of 0..=max chars
pub fn sjis_string(max: usize) -> BoxedStrategy<String> {
    proptest::collection::vec(sjis_char(), 0..=max).prop_map(|v| v.into_iter().collect()).boxed()
}

/// very long strings: 100..=300 mixed single-/double-byte characters repeated 1..=60 times (about 150 bytes to 36 KiB; past any
/// fixed-size scratch buffer, with double-byte characters straddling every chunk boundary one might choose)
pub fn long_sjis_string() -> BoxedStrategy<String> {
    (proptest::collection::vec(prop_oneof![2 => sjis_char(), 1 => proptest::sample::select(sjis_domain().double.clone())], 100..=300), 1usize..=60).prop_map(|(v, k)| v.into_iter().collect::<String>().repeat(k)).boxed()
}

/// strings for archives: a small fixed pool (so that repeats and label/string collisions happen)
/// mixed with fresh random strings
pub fn archive_string() -> BoxedStrategy<String> {
    let pool: Vec<String> = ["", "a", "b", "ab", "b\u{FF71}", "MID_\u{FF71}", "\u{FF83}\u{FF7D}\u{FF84}", "Count", "Info", "\u{8868}", "\u{30BD}\\", "x|y", "\u{3042}\u{3044}", "same", "zz", "\u{0080}",
        // proper endings and beginnings of the strings above (pools that share tails or heads of strings must keep them apart)
        "\u{FF7D}\u{FF84}", "\u{FF84}", "\u{3044}", "y", "\\", "\u{653B}\u{6483}1", "1", "MID_", "sam",
        // known collision pairs of common 32-bit string hashes (FNV-1, FNV-1a, CRC-32, djb2, Java hashCode): distinct strings that a pool or
        // cache keyed by such a hash instead of by the string would merge (seeded round 6)
        "costarring", "liquid", "declinate", "macallums", "plumless", "buckeroo", "hetairas", "mentioner", "Aa", "BB",
        // the formats' fixed label names in other spellings (a reader matching them loosely would be misled)
        "count", "INFO", "animclipnametable", "ANIMCLIPNAMETABLE", "AnimClipNameTable", "Data"]
        .iter()
        .map(|s| s.to_string())
        .filter(|s| is_sjis_lossless(s))
        .collect();
    prop_oneof![
        160 => proptest::sample::select(pool),
        96 => sjis_string(6),
        32 => sjis_string(24),
        // long strings (60..=140 characters, single- and double-byte mixed: every alignment of a double-byte character occurs)
        8 => proptest::collection::vec(prop_oneof![2 => sjis_char(), 1 => proptest::sample::select(sjis_domain().double.clone())], 60..=140).prop_map(|v| v.into_iter().collect::<String>()),
        1 => long_sjis_string(),
    ]
    .boxed()
}

/// Unicode text for the UTF-16 text archive format: any scalar value except NUL, with planted classes
pub fn unicode_char() -> BoxedStrategy<char> {
    prop_oneof![
        6 => proptest::char::range(' ', '~'),
        2 => proptest::sample::select(vec!['\u{FEFF}', '\u{FFFE}', '\u{BBEF}', '\u{00BF}', '\u{BFBB}', '\u{FFFF}', '\u{FDD0}', '\u{0100}', '\u{0041}', '\u{4100}', '\u{0301}', '\u{00A5}', '\u{203E}', '\u{2212}', '\u{D7FF}', '\u{E000}', '\u{1F600}', '\u{10000}', '\u{10FFFF}', '\u{3042}', '\u{FF71}', '\u{0001}', '\u{007F}', '\u{0080}']),
        2 => proptest::char::range('\u{0001}', '\u{FFFF}'),
        1 => proptest::char::range('\u{10000}', '\u{10FFFF}'),
        2 => proptest::sample::select(sjis_domain().double.clone()),
    ]
    .boxed()
}
pub fn unicode_string(max: usize) -> BoxedStrategy<String> {
    proptest::collection::vec(unicode_char(), 0..=max).prop_map(|v| v.into_iter().collect()).boxed()
}

/// deterministic choice from the domain by index (for enumerated tiers)
pub fn sjis_pool_string(i: usize) -> String {
    let pool = ["", "a", "\u{FF71}", "b\u{FF71}", "\u{8868}", "\u{30BD}\\", "abc", "\u{3042}\u{3044}\u{3046}", "Count", "x", "same"];
    pool[i % pool.len()].to_string()
}
