//! `ArchiveContent` — generator, builder (through mila's public API, in a chosen call order) and
//! observer shared by the bin-archive properties (DESIGN 3.2).
use crate::engine::prop::Mix64;
use crate::gen::strings::archive_string;
use mila::{BinArchive, Endian};
use proptest::prelude::*;
use serde::{Deserialize, Serialize};
use std::collections::BTreeMap;

#[derive(Clone, Debug, Hash, PartialEq, Eq, Serialize, Deserialize)]
pub enum Cell {
    Pointer(u32),
    Str(String),
    CStr(String),
}

#[derive(Clone, Debug, Hash, PartialEq, Eq, Serialize, Deserialize)]
pub struct ArchiveContent {
    pub big_endian: bool,
    pub data: Vec<u8>,
    /// aligned address (addr + 4 <= len) -> annotation; at most one per cell
    pub cells: BTreeMap<u32, Cell>,
    /// any address <= len -> labels in per-address order (never empty)
    pub labels: BTreeMap<u32, Vec<String>>,
}

impl ArchiveContent {
    pub fn endian(&self) -> Endian {
        if self.big_endian {
            Endian::Big
        } else {
            Endian::Little
        }
    }
    pub fn len(&self) -> usize {
        self.data.len()
    }
    pub fn has_cstr(&self) -> bool {
        self.cells.values().any(|c| matches!(c, Cell::CStr(_)))
    }
    pub fn has_str(&self) -> bool {
        self.cells.values().any(|c| matches!(c, Cell::Str(_)))
    }
    pub fn annotation_count(&self) -> usize {
        self.cells.len() + self.labels.values().map(|v| v.len()).sum::<usize>()
    }
    pub fn kinds(&self) -> usize {
        let mut k = 0;
        k += self.cells.values().any(|c| matches!(c, Cell::Pointer(_))) as usize;
        k += self.has_str() as usize;
        k += self.has_cstr() as usize;
        k += (!self.labels.is_empty()) as usize;
        k
    }
    /// removes everything the quantifier excludes (cells outside the data, targets/labels beyond the end)
    pub fn normalise(mut self) -> Self {
        let len = self.data.len() as u32;
        self.cells = self
            .cells
            .into_iter()
            .filter(|(a, _)| a % 4 == 0 && a + 4 <= len)
            .map(|(a, c)| match c {
                Cell::Pointer(t) => (a, Cell::Pointer(t.min(len))),
                c => (a, c),
            })
            .collect();
        self.labels = self.labels.into_iter().filter(|(a, v)| *a <= len && !v.is_empty()).collect();
        self
    }
}

#[derive(Clone, Debug)]
pub enum CellSpec {
    Pointer(u16),
    Str(String),
    CStr(String),
}

/// random content; `max_len` bytes of data at most, c-strings only if `cstr`
pub fn content_strategy(max_len: usize, max_cells: usize, max_labels: usize, cstr: bool) -> BoxedStrategy<ArchiveContent> {
    let third = if cstr { archive_string().prop_map(CellSpec::CStr).boxed() } else { archive_string().prop_map(CellSpec::Str).boxed() };
    let cell = prop_oneof![
        3 => any::<u16>().prop_map(CellSpec::Pointer),
        1 => prop_oneof![Just(0u16), Just(u16::MAX)].prop_map(CellSpec::Pointer),
        4 => archive_string().prop_map(CellSpec::Str),
        3 => third,
    ];
    let len = prop_oneof![
        2 => Just(0usize),
        6 => (0..=max_len / 4).prop_map(|c| c * 4),
        3 => 0..=max_len,
    ];
    (
        any::<bool>(),
        len,
        any::<u64>(),
        proptest::collection::vec((any::<u16>(), cell), 0..=max_cells),
        proptest::collection::vec(
            (
                prop_oneof![3 => any::<u16>().prop_map(Some), 1 => Just(None)],
                any::<u8>(),
                prop_oneof![
                    // a tiny pool of single names: the same name list on several addresses is common
                    3 => proptest::sample::select(vec!["same", "a", "b"]).prop_map(|s| vec![s.to_string()]),
                    2 => proptest::collection::vec(archive_string(), 1..=1),
                    2 => proptest::collection::vec(archive_string(), 1..4),
                ],
            ),
            0..=max_labels,
        ),
    )
        .prop_map(|(big_endian, len, data_seed, cells, labels)| {
            let data = Mix64(data_seed).bytes(len);
            let ncells = len / 4;
            let mut cm = BTreeMap::new();
            if ncells > 0 {
                for (sel, spec) in cells {
                    let addr = (((sel as usize) * ncells) >> 16) as u32 * 4;
                    let c = match spec {
                        CellSpec::Pointer(t) => Cell::Pointer((((t as usize) * (len + 1)) >> 16) as u32),
                        CellSpec::Str(s) => Cell::Str(s),
                        CellSpec::CStr(s) => Cell::CStr(s),
                    };
                    cm.entry(addr).or_insert(c);
                }
            }
            let mut lm: BTreeMap<u32, Vec<String>> = BTreeMap::new();
            for (sel, unalign, names) in labels {
                let addr = match sel {
                    None => len as u32, // label at the end
                    Some(sel) => {
                        let a = ((sel as usize) * (len + 1)) >> 16;
                        // mostly cell boundaries, sometimes unaligned
                        if unalign % 4 == 0 {
                            a as u32
                        } else {
                            (a as u32) & !3
                        }
                    }
                };
                lm.entry(addr).or_default().extend(names);
            }
            ArchiveContent { big_endian, data, cells: cm, labels: lm }.normalise()
        })
        .boxed()
}

#[derive(Debug)]
pub struct BuildError(pub String);

/// Realises `content` through the public API in a call order derived from `order_seed`
/// (different seeds = different histories for the same content). `detours` adds
/// write-then-delete-then-rewrite steps.
pub fn build(content: &ArchiveContent, order_seed: u64, detours: bool) -> Result<BinArchive, BuildError> {
    let mut r = Mix64(order_seed ^ 0xA5A5_5A5A);
    let mut a = BinArchive::new(content.endian());
    let len = content.len();
    // size: one piece or several
    match r.below(3) {
        0 => a.allocate_at_end(len),
        1 => {
            let first = r.below(len as u64 + 1) as usize;
            a.allocate_at_end(first);
            a.allocate_at_end(len - first);
        }
        _ => {
            // grow in front: allocate(0, n) on an aligned prefix, rest at the end
            let front = (r.below(len as u64 / 4 + 1) as usize) * 4;
            a.allocate_at_end(len - front);
            a.allocate(0, front, false).map_err(|e| BuildError(format!("allocate(0,{front}): {e}")))?;
        }
    }
    if a.size() != len {
        return Err(BuildError(format!("size after allocation {} != {}", a.size(), len)));
    }
    enum Step {
        Data,
        Cell(u32),
        LabelOne(u32, usize),
        LabelAll(u32),
    }
    let mut steps: Vec<Step> = vec![Step::Data];
    for addr in content.cells.keys() {
        steps.push(Step::Cell(*addr));
    }
    for (addr, names) in &content.labels {
        if order_seed != 0 && r.below(2) == 0 {
            steps.push(Step::LabelAll(*addr));
        } else {
            for i in 0..names.len() {
                steps.push(Step::LabelOne(*addr, i));
            }
        }
    }
    if order_seed != 0 {
        // Fisher-Yates
        for i in (1..steps.len()).rev() {
            let j = r.below(i as u64 + 1) as usize;
            steps.swap(i, j);
        }
        // per-address label order is content: restore it among the shuffled positions
        let mut next: BTreeMap<u32, usize> = BTreeMap::new();
        for s in steps.iter_mut() {
            if let Step::LabelOne(addr, i) = s {
                let n = next.entry(*addr).or_insert(0);
                *i = *n;
                *n += 1;
            }
        }
    }
    let e = |what: &str, err: mila::ArchiveError| BuildError(format!("{what}: {err}"));
    for s in steps {
        match s {
            Step::Data => {
                if len > 0 {
                    if r.below(2) == 0 {
                        a.write_bytes(0, &content.data).map_err(|x| e("write_bytes", x))?;
                    } else {
                        for (i, b) in content.data.iter().enumerate() {
                            a.write_u8(i, *b).map_err(|x| e("write_u8", x))?;
                        }
                    }
                }
            }
            Step::Cell(addr) => {
                let ad = addr as usize;
                let cell = &content.cells[&addr];
                if detours && r.below(3) == 0 && !matches!(cell, Cell::CStr(_)) {
                    // write something else first, then remove it again
                    match r.below(4) {
                        0 => {
                            a.write_string(ad, Some("detour")).map_err(|x| e("write_string", x))?;
                            a.delete_string(ad).map_err(|x| e("delete_string", x))?;
                        }
                        1 => {
                            a.write_string(ad, Some("detour2")).map_err(|x| e("write_string", x))?;
                            a.write_string(ad, None).map_err(|x| e("write_string(None)", x))?;
                        }
                        2 => {
                            a.write_pointer(ad, Some(0)).map_err(|x| e("write_pointer", x))?;
                            a.delete_pointer(ad).map_err(|x| e("delete_pointer", x))?;
                        }
                        _ => {
                            a.write_pointer(ad, Some(len)).map_err(|x| e("write_pointer", x))?;
                            a.write_pointer(ad, None).map_err(|x| e("write_pointer(None)", x))?;
                        }
                    }
                }
                match cell {
                    Cell::Pointer(t) => a.write_pointer(ad, Some(*t as usize)).map_err(|x| e("write_pointer", x))?,
                    Cell::Str(s) => a.write_string(ad, Some(s)).map_err(|x| e("write_string", x))?,
                    Cell::CStr(s) => a.write_c_string(ad, s.clone()).map_err(|x| e("write_c_string", x))?,
                }
            }
            Step::LabelOne(addr, i) => {
                let ad = addr as usize;
                if i == 0 && detours && ad + 4 <= len && r.below(3) == 0 {
                    a.write_labels(ad, vec!["junk".to_string(), "junk2".to_string()]).map_err(|x| e("write_labels", x))?;
                    if r.below(2) == 0 {
                        a.delete_labels(ad).map_err(|x| e("delete_labels", x))?;
                    } else {
                        a.delete_label(ad, 0).map_err(|x| e("delete_label", x))?;
                        a.delete_label(ad, 0).map_err(|x| e("delete_label", x))?;
                    }
                }
                a.write_label(ad, &content.labels[&addr][i]).map_err(|x| e("write_label", x))?;
            }
            Step::LabelAll(addr) => {
                a.write_labels(addr as usize, content.labels[&addr].clone()).map_err(|x| e("write_labels", x))?;
            }
        }
    }
    Ok(a)
}

/// everything observable through the read API
#[derive(Clone, Debug, PartialEq, Eq)]
pub struct Observed {
    pub size: usize,
    pub bytes: Vec<u8>,
    pub strings: BTreeMap<usize, String>,
    pub pointers: BTreeMap<usize, usize>,
    /// per address, in bucket order (from all_labels)
    pub labels: BTreeMap<usize, Vec<String>>,
    pub destinations: std::collections::BTreeSet<usize>,
}

pub fn observe(a: &BinArchive) -> Result<Observed, String> {
    observe_step(a, 4)
}

/// `step` = 4 looks at aligned cells only, 1 at every address
pub fn observe_step(a: &BinArchive, step: usize) -> Result<Observed, String> {
    let size = a.size();
    let bytes = if size > 0 { a.read_bytes(0, size).map_err(|e| format!("read_bytes(0,{size}): {e}"))?.to_vec() } else { Vec::new() };
    let mut strings = BTreeMap::new();
    let mut pointers = BTreeMap::new();
    let mut addr = 0;
    while addr + 4 <= size {
        if let Some(s) = a.read_string(addr).map_err(|e| format!("read_string({addr}): {e}"))? {
            strings.insert(addr, s);
        }
        if let Some(p) = a.read_pointer(addr).map_err(|e| format!("read_pointer({addr}): {e}"))? {
            pointers.insert(addr, p);
        }
        addr += step;
    }
    let mut labels: BTreeMap<usize, Vec<String>> = BTreeMap::new();
    for (ad, name) in a.all_labels() {
        labels.entry(ad).or_default().push(name);
    }
    // read_labels must agree wherever it is legal
    for (ad, names) in &labels {
        if ad + 4 <= size {
            let got = a.read_labels(*ad).map_err(|e| format!("read_labels({ad}): {e}"))?;
            if got.as_ref() != Some(names) {
                return Err(format!("read_labels({ad}) = {got:?} but all_labels gives {names:?}"));
            }
        }
    }
    let destinations = a.pointer_destinations().into_iter().collect();
    Ok(Observed { size, bytes, strings, pointers, labels, destinations })
}

/// Shift-JIS bytes of the padded c-string pool that serialize appends (distinct c-strings,
/// in ascending order of their encoded bytes, each NUL-terminated, padded to 4)
pub fn cstring_pool(content: &ArchiveContent) -> (Vec<u8>, BTreeMap<String, usize>) {
    let mut distinct: Vec<(Vec<u8>, String)> = Vec::new();
    for c in content.cells.values() {
        if let Cell::CStr(s) = c {
            let enc = crate::gen::strings::sjis_encode(s).unwrap_or_default();
            if !distinct.iter().any(|(_, t)| t == s) {
                distinct.push((enc, s.clone()));
            }
        }
    }
    distinct.sort();
    let mut pool = Vec::new();
    let mut off = BTreeMap::new();
    for (enc, s) in distinct {
        off.insert(s, pool.len());
        pool.extend_from_slice(&enc);
        pool.push(0);
    }
    while pool.len() % 4 != 0 {
        pool.push(0);
    }
    (pool, off)
}
