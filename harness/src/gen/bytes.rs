//! Structured byte-string specifications (inputs of the compressors, file payloads).
//! A spec is a small serialisable value that expands deterministically to the bytes.
use crate::engine::prop::Mix64;
use proptest::prelude::*;
use serde::{Deserialize, Serialize};

#[derive(Clone, Debug, Hash, PartialEq, Eq, Serialize, Deserialize)]
pub enum BytesSpec {
    Raw(Vec<u8>),
    Run { byte: u8, len: u32 },
    /// `len` bytes repeating with period `period`; pattern from `seed`; alphabet 0 = all bytes,
    /// 1 = {0,1}, 2 = constant
    Periodic { period: u32, len: u32, seed: u64, alphabet: u8 },
    /// incompressible-ish: `len` pseudo-random bytes
    Random { len: u32, seed: u64 },
    /// random prefix followed by copies of earlier slices (distance, length) with literals between
    SelfSimilar { prefix: u32, seed: u64, copies: Vec<(u32, u32, u8)> },
    Concat(Vec<BytesSpec>),
}

pub fn pattern(period: usize, seed: u64, alphabet: u8) -> Vec<u8> {
    let mut r = Mix64(seed);
    match alphabet {
        1 => (0..period).map(|_| (r.next() & 1) as u8).collect(),
        2 => vec![(seed & 0xFF) as u8; period],
        _ => r.bytes(period),
    }
}

impl BytesSpec {
    pub fn expand(&self) -> Vec<u8> {
        match self {
            BytesSpec::Raw(v) => v.clone(),
            BytesSpec::Run { byte, len } => vec![*byte; *len as usize],
            BytesSpec::Periodic { period, len, seed, alphabet } => {
                let p = (*period).max(1) as usize;
                let pat = pattern(p, *seed, *alphabet);
                (0..*len as usize).map(|i| pat[i % p]).collect()
            }
            BytesSpec::Random { len, seed } => Mix64(*seed).bytes(*len as usize),
            BytesSpec::SelfSimilar { prefix, seed, copies } => {
                let mut r = Mix64(*seed);
                let mut out = r.bytes((*prefix).max(1) as usize);
                for (dist, len, lits) in copies {
                    let d = (*dist as usize).clamp(1, out.len());
                    let start = out.len() - d;
                    for i in 0..*len as usize {
                        let v = out[start + i];
                        out.push(v);
                    }
                    let l = r.bytes(*lits as usize);
                    out.extend(l);
                }
                out
            }
            BytesSpec::Concat(v) => v.iter().flat_map(|s| s.expand()).collect(),
        }
    }
}

/// lengths that matter for LZ: around the 8-token flag group, 18-byte and 0x110/0x111 match
/// limits and the 4096 window
pub fn interesting_len(max: u32) -> BoxedStrategy<u32> {
    let pal: Vec<u32> = vec![0, 1, 2, 3, 4, 7, 8, 9, 15, 16, 17, 18, 19, 20, 21, 24, 25, 35, 36, 37, 255, 256, 272, 273, 274, 290, 291, 4095, 4096, 4097, 4098, 4113, 4114, 4115, 8192, 8193]
        .into_iter()
        .filter(|x| *x <= max)
        .collect();
    prop_oneof![
        3 => proptest::sample::select(pal),
        3 => 0..=max.min(64),
        2 => 0..=max.min(600),
        1 => 0..=max,
    ]
    .boxed()
}

pub fn interesting_period() -> BoxedStrategy<u32> {
    prop_oneof![
        3 => 1u32..=20,
        2 => proptest::sample::select(vec![255u32, 256, 257, 2047, 2048, 2049, 4090, 4091, 4092, 4093, 4094, 4095, 4096, 4097, 4098, 4100]),
        2 => 1u32..=4200,
    ]
    .boxed()
}

pub fn interesting_dist() -> BoxedStrategy<u32> {
    prop_oneof![
        3 => proptest::sample::select(vec![1u32, 2, 3, 4, 17, 18, 19, 4094, 4095, 4096, 4097, 4098]),
        2 => 1u32..=64,
        1 => 1u32..=5000,
    ]
    .boxed()
}

pub fn interesting_copy_len() -> BoxedStrategy<u32> {
    prop_oneof![
        4 => proptest::sample::select(vec![1u32, 2, 3, 4, 15, 16, 17, 18, 19, 20, 271, 272, 273, 274, 275, 4095, 4096, 4097]),
        3 => 1u32..=40,
        1 => 1u32..=5000,
    ]
    .boxed()
}

/// structured LZ inputs, total size roughly bounded by `max`
pub fn lz_input(max: u32) -> BoxedStrategy<BytesSpec> {
    let leaf = prop_oneof![
        2 => proptest::collection::vec(any::<u8>(), 0..24).prop_map(BytesSpec::Raw),
        2 => proptest::collection::vec(0u8..2, 0..40).prop_map(BytesSpec::Raw),
        2 => (any::<u8>(), interesting_len(max)).prop_map(|(byte, len)| BytesSpec::Run { byte, len }),
        4 => (interesting_period(), interesting_len(max), any::<u64>(), 0u8..3).prop_map(move |(period, extra, seed, alphabet)| {
            // total length = period + extra (so the tail after one period is what is "interesting")
            BytesSpec::Periodic { period, len: (period + extra).min(max.max(period + 1)), seed, alphabet }
        }),
        2 => (interesting_len(max.min(6000)), any::<u64>()).prop_map(|(len, seed)| BytesSpec::Random { len, seed }),
        4 => (1u32..=4200, any::<u64>(), proptest::collection::vec((interesting_dist(), interesting_copy_len(), 0u8..4), 1..6))
            .prop_map(move |(prefix, seed, copies)| {
                let mut budget = max as i64 - prefix as i64;
                let copies = copies.into_iter().filter(|c| { budget -= c.1 as i64 + c.2 as i64; budget >= 0 }).collect();
                BytesSpec::SelfSimilar { prefix: prefix.min(max.max(1)), seed, copies }
            }),
    ];
    prop_oneof![
        4 => leaf.clone(),
        1 => proptest::collection::vec(leaf, 2..4).prop_map(BytesSpec::Concat),
    ]
    .boxed()
}

/// the n-th string of length `len` over an alphabet of `k` symbols
pub fn small_string(k: u8, len: u8, index: u64) -> Vec<u8> {
    let mut v = Vec::with_capacity(len as usize);
    let mut x = index;
    for _ in 0..len {
        v.push((x % k as u64) as u8);
        x /= k as u64;
    }
    v
}
