pub mod archive;
pub mod bytes;
pub mod strings;
