pub mod bytes;
