pub mod archive;
pub mod bytes;
pub mod fs;
pub mod strings;
