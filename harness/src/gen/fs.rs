//! Filesystem sandbox, directory snapshots and path generators for C12-C14 (DESIGN 3.6).
use crate::engine::prop::Mix64;
use crate::refimpl::reflz::{self, Kind, Token};
use proptest::prelude::*;
use serde::{Deserialize, Serialize};
use std::collections::BTreeMap;
use std::sync::atomic::{AtomicU64, Ordering};

#[derive(Clone, Debug, PartialEq, Eq)]
pub enum Node {
    Dir,
    File(Vec<u8>),
}
pub type Tree = BTreeMap<String, Node>;

/// walks a layer directory with std::fs (the independent observer)
pub fn snapshot(root: &str) -> Tree {
    let mut t = Tree::new();
    fn walk(base: &std::path::Path, rel: &str, t: &mut Tree) {
        let dir = if rel.is_empty() { base.to_path_buf() } else { base.join(rel) };
        if let Ok(rd) = std::fs::read_dir(&dir) {
            for e in rd.filter_map(|e| e.ok()) {
                let name = e.file_name().to_string_lossy().to_string();
                let child = if rel.is_empty() { name } else { format!("{rel}/{name}") };
                match e.file_type() {
                    Ok(ft) if ft.is_dir() => {
                        t.insert(child.clone(), Node::Dir);
                        walk(base, &child, t);
                    }
                    _ => {
                        t.insert(child.clone(), Node::File(std::fs::read(base.join(&child)).unwrap_or_default()));
                    }
                }
            }
        }
    }
    walk(std::path::Path::new(root), "", &mut t);
    t
}

static COUNTER: AtomicU64 = AtomicU64::new(0);

pub struct Sandbox {
    pub root: String,
    /// canonical layer directories (what the snapshots walk)
    pub layers: Vec<String>,
}

/// a non-canonical but equivalent spelling of an absolute directory path (what a caller may pass to LayeredFilesystem::new)
pub fn decorate(path: &str, style: u8) -> String {
    match style % 5 {
        1 => format!("{path}/"),
        2 => format!("{path}/."),
        3 => {
            // .../X  ->  .../X/../X
            let name = path.rsplit('/').next().unwrap_or("");
            format!("{path}/../{name}")
        }
        4 => path.replacen("/mila-verif-fs", "/./mila-verif-fs", 1),
        _ => path.to_string(),
    }
}
impl Sandbox {
    pub fn new(nlayers: usize) -> Sandbox {
        let base = if std::path::Path::new("/dev/shm").is_dir() { "/dev/shm".to_string() } else { "/verif/.scratch".to_string() };
        let root = format!("{base}/mila-verif-fs-{}-{}", std::process::id(), COUNTER.fetch_add(1, Ordering::Relaxed));
        let _ = std::fs::remove_dir_all(&root);
        let layers: Vec<String> = (0..nlayers).map(|i| format!("{root}/L{i}")).collect();
        for l in &layers {
            std::fs::create_dir_all(l).expect("sandbox layer");
        }
        Sandbox { root, layers }
    }
    pub fn snapshots(&self) -> Vec<Tree> {
        self.layers.iter().map(|l| snapshot(l)).collect()
    }
}
impl Drop for Sandbox {
    fn drop(&mut self) {
        let _ = std::fs::remove_dir_all(&self.root);
    }
}

#[derive(Clone, Debug, Hash, Serialize, Deserialize)]
pub enum Payload {
    Raw(Vec<u8>),
    /// compressible: `n` bytes repeating a short pattern
    Repeat(u8, u16),
    /// incompressible-ish
    Seeded(u16, u64),
    /// a payload that is itself a complete valid stream of the given kind (0 = LZ10, 1 = 0x13-wrapped LZ11) of `n` seeded bytes
    Stream(u8, u16, u64),
}
impl Payload {
    pub fn bytes(&self) -> Vec<u8> {
        match self {
            Payload::Raw(v) => v.clone(),
            Payload::Repeat(b, n) => (0..*n as usize).map(|i| b.wrapping_add((i % 7) as u8)).collect(),
            Payload::Seeded(n, s) => Mix64(*s).bytes(*n as usize),
            Payload::Stream(kind, n, s) => {
                let inner = Mix64(*s).bytes(*n as usize);
                reference_compressed(if *kind == 0 { mila::Game::FE9 } else { mila::Game::FE14 }, &inner)
            }
        }
    }
}
pub fn payload_strategy() -> BoxedStrategy<Payload> {
    prop_oneof![
        2 => Just(Payload::Raw(vec![])),
        3 => proptest::collection::vec(any::<u8>(), 1..=3).prop_map(Payload::Raw),
        3 => (any::<u8>(), 4u16..600).prop_map(|(b, n)| Payload::Repeat(b, n)),
        2 => (1u16..400, any::<u64>()).prop_map(|(n, s)| Payload::Seeded(n, s)),
        1 => (4000u16..8192, any::<u64>()).prop_map(|(n, s)| if s % 2 == 0 { Payload::Seeded(n, s) } else { Payload::Repeat(s as u8, n) }),
        1 => (0u8..2, 0u16..40, any::<u64>()).prop_map(|(k, n, s)| Payload::Stream(k, n, s)),
    ]
    .boxed()
}

/// an entry of an initial layer: a file with a payload, or a directory
#[derive(Clone, Debug, Hash, Serialize, Deserialize)]
pub struct Entry {
    pub path: String,
    /// None = directory
    pub file: Option<Payload>,
    /// for files with a compressed suffix: store garbage instead of a valid stream
    pub corrupt: bool,
}

pub const DIRS: [&str; 10] = ["m", "map", "data", "sub dir", "@mods", "\u{30C6}\u{30AD}\u{30B9}\u{30C8}", "a.b", "E", "Map", "e_dir"];
pub const FILES: [&str; 23] = [
    "GameData.bin", "map.bin", "m.bin", "map-x", "x.bin.lz", "file.cmp", "e.cms", "readme", ".hidden", "\u{30C6}.bin", "a+b=c,d~.txt", "@E", "MAP.BIN", "x.BIN", "e_common.m", "s_x.cmp", "f_",
    // names that temp-file / backup schemes derive from the ones above
    "GameData.tmp", "x.bin.tmp", "map.bak", "map.bin~", "file.tmp", "readme.tmp",
];

/// relative paths of plain components, depth 1..=4, from a small pool so that layers collide
pub fn path_strategy() -> BoxedStrategy<String> {
    let dir = proptest::sample::select(DIRS.to_vec());
    let file = prop_oneof![3 => proptest::sample::select(FILES.to_vec()).prop_map(|s| s.to_string()), 1 => proptest::sample::select(DIRS.to_vec()).prop_map(|s| s.to_string())];
    (proptest::collection::vec(dir, 0..=3), file).prop_map(|(d, f)| {
        let mut p: Vec<String> = d.into_iter().map(|s| s.to_string()).collect();
        p.push(f);
        p.join("/")
    })
    .boxed()
}

pub fn layer_strategy() -> BoxedStrategy<Vec<Entry>> {
    proptest::collection::vec((path_strategy(), proptest::option::weighted(0.75, payload_strategy()), 0u8..16).prop_map(|(path, file, c)| Entry { path, file, corrupt: c == 0 }), 0..8).boxed()
}

pub const GAMES: [mila::Game; 5] = [mila::Game::FE9, mila::Game::FE10, mila::Game::FE13, mila::Game::FE14, mila::Game::FE15];
pub const LANGS: [mila::Language; 8] = [mila::Language::EnglishNA, mila::Language::EnglishEU, mila::Language::Japanese, mila::Language::Spanish, mila::Language::French, mila::Language::Italian, mila::Language::German, mila::Language::Dutch];

pub fn is_lz10_game(g: mila::Game) -> bool {
    matches!(g, mila::Game::FE9 | mila::Game::FE10)
}
pub fn compressed_suffix(g: mila::Game, name: &str) -> bool {
    if is_lz10_game(g) {
        name.ends_with(".cmp") || name.ends_with(".cms")
    } else {
        name.ends_with(".lz")
    }
}

/// a valid stored form of `payload` for the game's codec, produced by the reference encoder (literals only)
pub fn reference_compressed(g: mila::Game, payload: &[u8]) -> Vec<u8> {
    let toks: Vec<Token> = payload.iter().map(|b| Token::Lit(*b)).collect();
    if is_lz10_game(g) {
        reflz::encode(Kind::Lz10, &toks)
    } else {
        let mut v = vec![0x13, 0, 0, 0];
        v.extend(reflz::encode(Kind::Lz11, &toks));
        v
    }
}

/// independent decoding of a stored compressed file: Some(Ok(data)) well-formed, Some(Err) definitely malformed, None no claim
pub fn reference_expand(g: mila::Game, stored: &[u8]) -> Option<Result<Vec<u8>, ()>> {
    let (kind, body): (Kind, &[u8]) = if is_lz10_game(g) {
        (Kind::Lz10, stored)
    } else {
        if stored.len() < 4 {
            return Some(Err(()));
        }
        match stored[0] {
            0x13 => (Kind::Lz11, &stored[4..]),
            0x11 => (Kind::Lz11, stored),
            0x10 => (Kind::Lz10, stored),
            _ => return None,
        }
    };
    match reflz::parse(kind, body) {
        Ok(p) => reflz::expand(&p.tokens).map(Ok),
        Err(reflz::Malformed::ShorterThanHeader) | Err(reflz::Malformed::Truncated { .. }) | Err(reflz::Malformed::BeforeStart { .. }) => Some(Err(())),
        Err(reflz::Malformed::BadType(t)) if t != 0x10 && t != 0x11 => Some(Err(())),
        _ => None,
    }
}

/// materialises the initial layers; entries that conflict inside one layer (file vs directory, file as parent) are skipped
pub fn populate(sb: &Sandbox, game: mila::Game, layers: &[Vec<Entry>]) {
    for (li, entries) in layers.iter().enumerate() {
        let root = &sb.layers[li];
        for e in entries {
            let full = std::path::Path::new(root).join(&e.path);
            match &e.file {
                None => {
                    let _ = std::fs::create_dir_all(&full);
                }
                Some(p) => {
                    if let Some(parent) = full.parent() {
                        if std::fs::create_dir_all(parent).is_err() {
                            continue;
                        }
                    }
                    if full.is_dir() {
                        continue;
                    }
                    let name = e.path.rsplit('/').next().unwrap_or("");
                    let bytes = if compressed_suffix(game, name) {
                        if e.corrupt {
                            vec![0x77, 1, 2, 3, 4]
                        } else {
                            reference_compressed(game, &p.bytes())
                        }
                    } else {
                        p.bytes()
                    };
                    let _ = std::fs::write(&full, bytes);
                }
            }
        }
    }
}

/// the specification table of C14: marker for (game, language); None = unsupported pair
/// `Dir(m)`: a directory component inserted between the directory part and the final component;
/// `Prefix(p)`: prepended to the final component; "" = no marker
pub enum Marker {
    Dir(&'static str),
    Prefix(&'static str),
}
pub fn marker(game: mila::Game, lang: mila::Language) -> Option<Marker> {
    use mila::Game::*;
    use mila::Language::*;
    Some(match game {
        FE13 => Marker::Dir(match lang {
            EnglishNA => "E",
            EnglishEU => "U",
            Japanese => "",
            Spanish => "S",
            French => "F",
            German => "G",
            Italian => "I",
            Dutch => return None,
        }),
        FE14 => Marker::Dir(match lang {
            EnglishNA => "@E",
            EnglishEU => "@U",
            Japanese => "",
            Spanish => "@S",
            French => "@F",
            German => "@G",
            Italian => "@I",
            Dutch => return None,
        }),
        FE15 => Marker::Dir(match lang {
            EnglishNA => "@NOA_EN",
            EnglishEU => "@NOE_EN",
            Japanese => "@J",
            Spanish => "@NOE_SP",
            French => "@NOE_FR",
            German => "@NOE_GE",
            Italian => "@NOE_IT",
            Dutch => "@NOE_DU",
        }),
        FE9 => Marker::Prefix(match lang {
            Spanish => "s_",
            German => "d_",
            Italian => "i_",
            French => "f_",
            Japanese | EnglishNA | EnglishEU => "",
            Dutch => return None,
        }),
        FE10 => Marker::Prefix(match lang {
            EnglishNA | EnglishEU => "e_",
            Spanish => "s_",
            German => "d_",
            Italian => "i_",
            French => "f_",
            Japanese => "",
            Dutch => return None,
        }),
        _ => return None,
    })
}

/// Expected localisation of a relative path of plain components (optionally with a trailing slash):
/// directory part + "/" + marker + final component; a single component is a directory and gets the marker appended.
/// None = must be an error (unsupported pair)
pub fn expected_localized(game: mila::Game, lang: mila::Language, path: &str) -> Option<String> {
    let m = marker(game, lang)?;
    let comps: Vec<&str> = path.split('/').filter(|c| !c.is_empty()).collect();
    if comps.is_empty() {
        return None; // no final component: an error as well
    }
    let (dir, last) = if comps.len() == 1 { (comps[0].to_string(), "") } else { (comps[..comps.len() - 1].join("/"), comps[comps.len() - 1]) };
    Some(match m {
        Marker::Dir("") | Marker::Prefix("") => format!("{dir}/{last}"),
        Marker::Dir(d) => format!("{dir}/{d}/{last}"),
        Marker::Prefix(p) => format!("{dir}/{p}{last}"),
    })
}

/// looks a (layer-relative) path up in a snapshot; trailing slashes only match directories
pub fn lookup<'a>(t: &'a Tree, path: &str) -> Option<&'a Node> {
    let wants_dir = path.ends_with('/');
    let key = path.trim_end_matches('/');
    if key.is_empty() {
        return Some(&Node::Dir);
    }
    match t.get(key) {
        Some(Node::File(_)) if wants_dir => None,
        x => x,
    }
}
