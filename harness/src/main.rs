//! `verif` — one binary, three roles: parent (spawns workers, merges, evidence), worker
//! (executes one shard in-process) and replay (re-executes one saved case).
use mila_verif::engine;
use mila_verif::props;

use engine::known::KnownFindings;
use engine::prop::Tier;
use engine::worker::ShardArgs;

#[global_allocator]
static GLOBAL: engine::alloc::Monitor = engine::alloc::Monitor;

fn arg(args: &[String], name: &str) -> Option<String> {
    args.iter().position(|a| a == name).and_then(|i| args.get(i + 1)).cloned()
}

fn tier_of(s: &str) -> Tier {
    if s == "thorough" {
        Tier::Thorough
    } else {
        Tier::Quick
    }
}

fn main() {
    let args: Vec<String> = std::env::args().collect();
    if args.len() < 3 {
        eprintln!("usage: verif parent|worker|replay|list <id> ...");
        std::process::exit(2);
    }
    engine::panics::install_hook();
    let role = args[1].as_str();
    if role == "list" {
        for p in props::registry() {
            println!("{}", p.id());
        }
        return;
    }
    let id = args[2].as_str();
    let reg = props::registry();
    let prop = match reg.iter().find(|p| p.id() == id) {
        Some(p) => p,
        None => {
            eprintln!("unknown property {id}");
            std::process::exit(2);
        }
    };
    let root = arg(&args, "--root").unwrap_or_else(|| "/verif".to_string());
    match role {
        "parent" => {
            let a = engine::parent::ParentArgs {
                root: root.clone(),
                tier: tier_of(&arg(&args, "--tier").unwrap_or_default()),
                seed: arg(&args, "--seed").and_then(|s| s.parse().ok()).unwrap_or(1),
                nshards: arg(&args, "--nshards").and_then(|s| s.parse().ok()).unwrap_or(16),
                bin_checked: arg(&args, "--bin-checked").unwrap_or_else(|| args[0].clone()),
                bin_wrapping: arg(&args, "--bin-wrapping").unwrap_or_else(|| args[0].clone()),
                extra_evidence: arg(&args, "--extra-evidence"),
            };
            std::process::exit(engine::parent::run(prop.as_ref(), a));
        }
        "worker" => {
            let sa = ShardArgs {
                tier: tier_of(&arg(&args, "--tier").unwrap_or_default()),
                seed: arg(&args, "--seed").and_then(|s| s.parse().ok()).unwrap_or(1),
                shard: arg(&args, "--shard").and_then(|s| s.parse().ok()).unwrap_or(0),
                nshards: arg(&args, "--nshards").and_then(|s| s.parse().ok()).unwrap_or(1),
                breadcrumb: arg(&args, "--breadcrumb"),
                digest_file: arg(&args, "--digests"),
                regressions_dir: format!("{root}/regressions"),
                known: KnownFindings::load(&format!("{root}/known_findings.json")),
                stage_filter: arg(&args, "--stage"),
                hash_file: arg(&args, "--hash-file"),
                emit: arg(&args, "--emit-hash").and_then(|h| u64::from_str_radix(&h, 16).ok()).zip(arg(&args, "--emit-to")),
            };
            let out = arg(&args, "--out");
            let sum = prop.run_shard(sa);
            let text = serde_json::to_string(&sum).unwrap();
            match out {
                Some(p) => std::fs::write(p, text).unwrap(),
                None => println!("{text}"),
            }
        }
        "digest" => {
            let path = args.get(3).cloned().unwrap_or_default();
            let v: serde_json::Value = serde_json::from_str(&std::fs::read_to_string(&path).unwrap_or_default()).unwrap_or(serde_json::Value::Null);
            match prop.digest_of(v) {
                Ok(d) => println!("{d:016x}"),
                Err(e) => {
                    eprintln!("{e}");
                    std::process::exit(2);
                }
            }
        }
        "corpus" => {
            let dir = args.get(3).cloned().unwrap_or_default();
            let seed: u64 = arg(&args, "--seed").and_then(|s| s.parse().ok()).unwrap_or(1);
            let files = prop.corpus(seed);
            for (i, f) in files.iter().enumerate() {
                let _ = std::fs::write(format!("{dir}/gen-{i:04}"), f);
            }
            println!("{} corpus files written to {dir}", files.len());
        }
        "replay" => {
            let path = args.get(3).cloned().unwrap_or_default();
            let text = match std::fs::read_to_string(&path) {
                Ok(t) => t,
                Err(e) => {
                    eprintln!("cannot read {path}: {e}");
                    std::process::exit(2);
                }
            };
            let v: serde_json::Value = match serde_json::from_str(&text) {
                Ok(v) => v,
                Err(e) => {
                    eprintln!("cannot parse {path}: {e}");
                    std::process::exit(2);
                }
            };
            match prop.replay(v) {
                Ok(None) => {
                    println!("replay {id} [{}]: PASS", engine::prop::profile());
                }
                Ok(Some(f)) => {
                    println!("replay {id} [{}]: FAIL [{}] {}", engine::prop::profile(), f.signature(), f.detail);
                    if f.kind == "harness-bug" {
                        std::process::exit(2);
                    }
                    let known = KnownFindings::load(&format!("{root}/known_findings.json"));
                    if let Some(k) = known.matches_open(id, &f.signature()) {
                        println!("KNOWN-FINDING: property={id} {}", k.description);
                    } else {
                        println!("VIOLATION property={id} replay={path}");
                        std::process::exit(1);
                    }
                }
                Err(e) => {
                    eprintln!("{e}");
                    std::process::exit(2);
                }
            }
        }
        _ => {
            eprintln!("unknown role {role}");
            std::process::exit(2);
        }
    }
}
