#!/usr/bin/env python3
"""Regenerates /verif/MANIFEST.json from the table below (single source of truth)."""
import json, os, sys
ROOT = os.path.dirname(os.path.dirname(os.path.abspath(__file__)))

# id -> (technique, level text, level note, design ref)   -- filled in as checks are built
CHECKS = {}
PENDING = {}  # id -> reason (properties not (yet) claimed)

def load_tables():
    p = os.path.join(ROOT, "tools", "manifest_table.json")
    t = json.load(open(p))
    return t["checks"], t["not_applicable"], t.get("hook_commits", [])

def main():
    checks, na, hook_commits = load_tables()
    props = [json.loads(l)["id"] for l in open(os.path.join(ROOT, "properties.jsonl"))]
    out = {
        "version": 1,
        "setup_cmd": "./setup.sh",
        "hooks": {
            "guard": "thane98_mila_verif",
            "enable": "none needed: every observation point is reachable through mila's public API; checks build /repo as a path dependency of /verif/harness (RUSTFLAGS untouched)",
            "baseline_off_cmd": "cd /repo && cargo test --workspace --no-fail-fast --offline",
            "source_commits": hook_commits,
            "add_only": True,
        },
        "engines": [
            {
                "name": "mila-verif",
                "path": "harness",
                "serves_properties": sorted(checks.keys()),
                "kind_free_text": "property-based testing harness (proptest 1.11 TestRunner driven from a binary, bounded-exhaustive enumerators, reference models/codecs, worker-process isolation, allocation monitor, two arithmetic builds); libFuzzer targets under fuzz/ for the thorough tier of C05/C11",
            }
        ],
        "checks": [],
        "notes": "Every check: ./check <id> [--tier quick|thorough]; VERIF_SEED respected; exit 0 held / 1 VIOLATION / 2 inconclusive (infrastructure). Known findings: known_findings.json. See DESIGN.md.",
        "not_applicable": [],
    }
    for pid in props:
        if pid in checks:
            c = checks[pid]
            out["checks"].append({
                "property_id": pid,
                "quick_cmd": f"./check {pid} --tier quick",
                "thorough_cmd": f"./check {pid} --tier thorough",
                "evidence_file": f"evidence/{pid}.json",
                "replay_cmd_template": f"./check {pid} --replay {{path}}",
                "engine": "mila-verif",
                "level_claimed": {
                    "category": "exploration",
                    "text": c["level_text"],
                    "design_ref": c["design_ref"],
                },
                "level_note": c["level_note"],
                "technique": c["technique"],
            })
        else:
            out["not_applicable"].append({"property_id": pid, "reason": na.get(pid, "check not built yet in this round (planned, see DESIGN.md section 4)")})
    json.dump(out, open(os.path.join(ROOT, "MANIFEST.json"), "w"), indent=1, ensure_ascii=False)
    print("MANIFEST.json:", len(out["checks"]), "checks,", len(out["not_applicable"]), "not claimed")

if __name__ == "__main__":
    main()
