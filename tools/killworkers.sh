#!/bin/bash
# kills stray harness processes (never matches itself: it looks at /proc/*/exe)
for d in /proc/[0-9]*; do
  exe=$(readlink "$d/exe" 2>/dev/null)
  case "$exe" in */harness/target-*/release/verif) kill -9 "${d#/proc/}" 2>/dev/null;; esac
done
