#!/usr/bin/env python3
"""Runs every seeded change under /verif/seeded against the quick check of its property (and optional extra ids),
records the outcome in its meta.json, and prints a table.  usage: tools/seed_run.py [--only C05] [--tier quick]"""
import json, os, subprocess, sys, glob, re
ROOT = os.path.dirname(os.path.dirname(os.path.abspath(__file__)))
only = None; tier = "quick"; match = None; start = None
a = sys.argv[1:]
while a:
    if a[0] == "--only": only = a[1]; a = a[2:]
    elif a[0] == "--tier": tier = a[1]; a = a[2:]
    elif a[0] == "--match": match = a[1]; a = a[2:]
    elif a[0] == "--from": start = a[1]; a = a[2:]
    else: a = a[1:]
def sh(cmd, **kw): return subprocess.run(cmd, shell=True, capture_output=True, text=True, **kw)
assert sh("git -C /repo diff --quiet").returncode == 0, "/repo is dirty"
# seeded changes whose natural detector is another property's check (run in addition to their own)
EXTRA = {("C19", "r2m2"): ["C20"], ("C19", "r4m2"): ["C20"], ("C20", "r3m2"): ["C19"]}
rows = []
for meta_path in sorted(glob.glob(f"{ROOT}/seeded/*/*/meta.json")):
    d = os.path.dirname(meta_path)
    meta = json.load(open(meta_path))
    pid = meta["property"]
    if only and pid != only: continue
    if start and pid < start: continue
    if match and match not in os.path.basename(d): continue
    r = sh(f"git -C /repo apply {d}/patch.diff")
    if r.returncode != 0:
        rows.append((pid, os.path.basename(d), "PATCH DOES NOT APPLY", "")); continue
    try:
        meta["checks_run"] = []
        any_caught = False; all_sigs = []
        for cid in [pid] + EXTRA.get((pid, os.path.basename(d)), []):
            r = sh(f"cd {ROOT} && timeout 1800 ./check {cid} --tier {tier}")
            out = r.stdout
            viol = [l.strip() for l in out.splitlines() if l.strip().startswith("violation [")]
            sigs = [(re.match(r"violation \[([^\]]*)\]", v) or re.match(r"(.{0,80})", v)).group(1) for v in viol]
            caught = r.returncode == 1 and any(l.startswith("VIOLATION property=" + cid) for l in out.splitlines())
            meta["checks_run"].append({"cmd": f"./check {cid} --tier {tier}", "exit": r.returncode, "caught": caught, "violation_signatures": sigs, "first_violation": (viol[0][:400] if viol else None)})
            any_caught |= caught; all_sigs += [f"{cid}:{x}" if cid != pid else x for x in sigs]
        rows.append((pid, os.path.basename(d), "caught" if any_caught else f"MISSED (exit {r.returncode})", "; ".join(all_sigs)[:150]))
    finally:
        sh("git -C /repo checkout -- .")
    json.dump(meta, open(meta_path, "w"), indent=1)
for r in rows: print("%-4s %-3s %-22s %s" % r)
print(sum(1 for r in rows if r[2] == "caught"), "of", len(rows), "caught")
