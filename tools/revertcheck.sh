#!/bin/bash
# tools/revertcheck.sh <fix-commit> <id>... : temporarily reverts one fix commit in /repo's working tree, runs quick checks, restores.
C="$1"; shift
cd /verif
git -C /repo diff --quiet || { echo "/repo is dirty; refusing"; exit 2; }
git -C /repo show "$C" -- src | git -C /repo apply -R || { echo "cannot reverse-apply $C"; exit 2; }
for id in "$@"; do
  ./check "$id" --tier quick > .scratch/rev-$id.out 2>&1; rc=$?
  echo "revert $C: $id exit=$rc :: $(grep -m3 'violation \[' .scratch/rev-$id.out | cut -c1-230 | tr '\n' ' ')"
  [ $rc -eq 2 ] && tail -5 .scratch/rev-$id.out
done
git -C /repo checkout -- .
