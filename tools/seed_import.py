#!/usr/bin/env python3
"""tools/seed_import.py <round> <outdir> [ids...]
Confirms every <outdir>/<id>/m<k>/ (patch.diff, demo.rs, notes.md written by an independent sub-agent) with tools/seed_verify.sh
in a fresh scratch worktree of /repo HEAD and, when the verdict is ok, stores it as seeded/<id>/r<round>m<k>/ with a meta.json
(the outcome of the checks is filled in later by tools/seed_run.py)."""
import json, os, shutil, subprocess, sys, glob
ROOT = os.path.dirname(os.path.dirname(os.path.abspath(__file__)))
rnd, out = sys.argv[1], sys.argv[2]
only = sys.argv[3:]
titles = {json.loads(l)["id"]: json.loads(l).get("title", "") for l in open(f"{ROOT}/properties.jsonl")}
origin = sys.stdin.read().strip() if not sys.stdin.isatty() else ""
for d in sorted(glob.glob(f"{out}/C*/m*")):
    pid, mk = d.split("/")[-2:]
    if only and pid not in only: continue
    if not all(os.path.isfile(f"{d}/{f}") for f in ("patch.diff", "demo.rs")):
        print(pid, mk, "incomplete"); continue
    pre = os.environ.get("SEED_VERDICTS")  # optional: output lines of tools/seed_verify.sh runs done beforehand (in parallel)
    line = None
    if pre:
        line = next((l.strip() for l in open(pre) if l.startswith(d + " ")), None)
    if line is None:
        r = subprocess.run([f"{ROOT}/tools/seed_verify.sh", d], capture_output=True, text=True)
        line = (r.stdout.strip().splitlines() or ["?"])[-1]
    ok = "VERDICT=ok" in line
    print(pid, mk, line.split(" ", 1)[-1], flush=True)
    if not ok: continue
    name = f"r{rnd}{mk}"
    dst = f"{ROOT}/seeded/{pid}/{name}"
    os.makedirs(dst, exist_ok=True)
    for f in ("patch.diff", "demo.rs", "notes.md"):
        if os.path.isfile(f"{d}/{f}"): shutil.copy(f"{d}/{f}", f"{dst}/{f}")
    meta = {
        "property": pid, "property_title": titles.get(pid, ""), "mutant": name, "round": int(rnd),
        "origin": origin or "written by an independent sub-agent that saw only the property text and a scratch worktree of /repo (nothing from /verif)",
        "needs_to_manifest": "see notes.md",
        "confirmed_by": "tools/seed_verify.sh in a fresh scratch worktree of /repo HEAD: demo passes on the clean tree; with patch.diff applied `cargo test --offline --lib` still gives 82 passed / 0 failed and the demo fails",
        "confirmation_result": line.split(" ", 1)[-1],
        "checks_run": [],
    }
    json.dump(meta, open(f"{dst}/meta.json", "w"), indent=1)
