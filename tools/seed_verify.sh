#!/bin/bash
# tools/seed_verify.sh <dir-with-patch.diff-and-demo.rs> : confirms, in a scratch worktree of /repo HEAD, that
#   (a) the demo passes without the patch, (b) with the patch the repository suite still passes (82) and (c) the demo fails.
# prints one line: "<dir> demo_clean=<pass|fail> suite_patched=<n passed/n failed> demo_patched=<pass|fail> VERDICT=<ok|bad>"
D="$1"; NAME=$(echo "$D" | tr '/' '_')
WT=/tmp/sv-$NAME
export CARGO_NET_OFFLINE=true CARGO_TARGET_DIR=$WT/target RUST_BACKTRACE=0
git -C /repo worktree remove --force $WT >/dev/null 2>&1; rm -rf $WT
git -C /repo worktree add -q --detach $WT HEAD || { echo "$D worktree failed"; exit 2; }
cd $WT
mkdir -p tests; cp "$D/demo.rs" tests/demo.rs
if cargo test --offline --test demo >$WT/demo_clean.log 2>&1; then DC=pass; else DC=fail; fi
if ! git apply "$D/patch.diff" 2>$WT/apply.log; then echo "$D patch does not apply: $(head -1 $WT/apply.log)"; cd /; git -C /repo worktree remove --force $WT; exit 1; fi
cargo test --offline --lib >$WT/suite.log 2>&1
SUITE=$(grep -h "^test result" $WT/suite.log | head -1 | sed 's/test result: //; s/; 0 ignored.*//')
if cargo test --offline --test demo >$WT/demo_patched.log 2>&1; then DP=pass; else DP=fail; fi
V=bad; if [ "$DC" = pass ] && [ "$DP" = fail ] && echo "$SUITE" | grep -q "ok. 82 passed; 0 failed"; then V=ok; fi
echo "$D demo_clean=$DC suite_patched=[$SUITE] demo_patched=$DP VERDICT=$V"
cd /; git -C /repo worktree remove --force $WT
