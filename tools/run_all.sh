#!/bin/bash
# tools/run_all.sh [quick|thorough] [seed] : runs every check once, prints exit code and wall time per property
TIER="${1:-quick}"; SEED="${2:-1}"
cd /verif
for id in $(harness/target-checked/release/verif list x 2>/dev/null); do
  s=$(date +%s)
  VERIF_SEED=$SEED ./check $id --tier $TIER > .scratch/all-$id-$TIER.out 2>&1; rc=$?
  e=$(date +%s)
  echo "$id tier=$TIER seed=$SEED exit=$rc wall=$((e-s))s :: $(grep -m1 "^$id tier" .scratch/all-$id-$TIER.out | cut -c1-120)"
  grep -E "^(VIOLATION|INCONCLUSIVE|KNOWN-FINDING)" .scratch/all-$id-$TIER.out | head -3
done
