#!/bin/bash
# Kills stray background runs started from this directory (run_all loops, check drivers, harness workers, fuzz jobs).
# Matches on /proc/<pid>/exe and cmdline; never matches itself. Call it as the ONLY command of a shell invocation:
# a calling shell whose own command line contains one of the patterns below would be killed too.
self=$$
for d in /proc/[0-9]*; do
  pid=${d#/proc/}
  [ "$pid" = "$self" ] && continue
  [ "$pid" = "$PPID" ] && continue
  c=$(tr '\0' ' ' < "$d/cmdline" 2>/dev/null)
  case "$c" in
    *tools/run_all.sh*|*tools/seed_run.py*|*tools/multiseed.sh*|*"release/c05 "*|*"release/c11 "*|*cargo-fuzz*|*"fuzz/run.sh"*) kill -9 "$pid" 2>/dev/null;;
  esac
  exe=$(readlink "$d/exe" 2>/dev/null)
  case "$exe" in */harness/target-*/release/verif|*/fuzz/target/*) kill -9 "$pid" 2>/dev/null;; esac
done
sleep 1
n=0
for d in /proc/[0-9]*; do
  exe=$(readlink "$d/exe" 2>/dev/null)
  case "$exe" in */harness/target-*/release/verif|*/fuzz/target/*) n=$((n+1));; esac
done
echo "remaining harness/fuzz processes: $n"
