#!/bin/bash
# tools/preserve_subset.sh <area> <check-id>... : applies every preserving/<area>/*/patch.diff to /repo in turn and runs only the named quick checks
# (a faster re-validation of the checks a harness edit touched than tools/preserve_run.py, which runs all twenty for every patch).
# prints one line per patch; any non-zero exit is a false alarm to investigate.  /repo must be clean; it is restored after each patch.
AREA="$1"; shift
cd /verif
git -C /repo diff --quiet || { echo "/repo is dirty"; exit 2; }
for d in preserving/$AREA/*/; do
  git -C /repo apply "/verif/$d/patch.diff" || { echo "$d does not apply"; continue; }
  res=""
  for id in "$@"; do
    ./check $id --tier quick > .scratch/ps-$id.out 2>&1; rc=$?
    res="$res $id=$rc"
  done
  git -C /repo checkout -- .
  echo "$d$res"
done
