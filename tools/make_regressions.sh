#!/bin/bash
# tools/make_regressions.sh <fix-commit> <id> : reverts the fix in the working tree, runs the quick check, and
# copies the shrunk failing cases (replay files) to regressions/<id>/fixed-<commit>-<n>.json; restores /repo.
C="$1"; ID="$2"
cd /verif
git -C /repo diff --quiet || { echo "/repo is dirty; refusing"; exit 2; }
rm -rf replays; mkdir -p regressions/$ID
git -C /repo show "$C" -- src | git -C /repo apply -R || { echo "cannot reverse-apply $C"; exit 2; }
timeout 900 ./check "$ID" --tier quick > .scratch/reg-$ID.out 2>&1; rc=$?
git -C /repo checkout -- .
n=0
for f in replays/$ID-*.json; do
  [ -f "$f" ] || continue
  n=$((n+1)); cp "$f" regressions/$ID/fixed-$C-$n.json
done
echo "$C $ID exit=$rc regressions=$n"
