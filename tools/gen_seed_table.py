#!/usr/bin/env python3
"""Regenerates the table of section 10 of DESIGN.md (between the SEED-TABLE markers) from seeded/*/*/meta.json."""
import json, glob, os, re
ROOT = os.path.dirname(os.path.dirname(os.path.abspath(__file__)))
rows = []
for mp in sorted(glob.glob(f"{ROOT}/seeded/*/*/meta.json")):
    m = json.load(open(mp)); d = os.path.dirname(mp)
    notes = open(d + "/notes.md").read()
    diff = open(d + "/patch.diff").read()
    files = sorted(set(re.findall(r"^\+\+\+ b/(\S+)", diff, re.M)))
    first = [l.strip("# ").strip() for l in notes.splitlines() if l.strip()][0]
    first = re.sub(r"^C\d+\s*/?\s*(mutant|m)?\s*\d*\s*[-—–:]+\s*", "", first, flags=re.I)
    runs = m.get("checks_run", [])
    caught_by = [r["cmd"].split()[1] for r in runs if r.get("caught")]
    sigs = []
    for r in runs:
        if r.get("caught"):
            sigs += r.get("violation_signatures", [])[:2]
    sig = "; ".join(s if len(s) < 70 else s[:67] + "..." for s in sigs[:2])
    status = ("caught by " + "+".join(caught_by)) if caught_by else (m.get("not_caught_reason") or "NOT caught")
    rows.append((m["property"], m["mutant"], ", ".join(f.replace("src/", "") for f in files), first[:100].replace("|", "/"), status, sig.replace("|", "/")))
table = "| property | change | files | what it is (first line of its notes) | outcome | violation signature(s) |\n|---|---|---|---|---|---|\n"
for r in rows:
    table += "| %s | %s | %s | %s | %s | `%s` |\n" % r
n = len(rows); c = sum(1 for r in rows if r[4].startswith("caught"))
summary = f"{c} of {n} seeded changes are reported (exit 1, VIOLATION line, shrunk replay file) by a quick check."
p = f"{ROOT}/DESIGN.md"
s = open(p).read()
a = s.index("<!-- SEED-TABLE-BEGIN -->") + len("<!-- SEED-TABLE-BEGIN -->")
b = s.index("<!-- SEED-TABLE-END -->")
s = s[:a] + "\n\n" + summary + "\n\n" + table + "\n" + s[b:]
open(p, "w").write(s)
print(summary)
