#!/usr/bin/env python3
"""False-alarm test: applies every property-PRESERVING change under /verif/preserving to /repo, runs ALL quick checks,
expects exit 0 from each, reverts, and records the outcome in preserving/<area>/<k>/result.json.
usage: tools/preserve_run.py [--only <area>] [--match <substring of patch name>]"""
import json, os, subprocess, sys, glob, re
ROOT = os.path.dirname(os.path.dirname(os.path.abspath(__file__)))
def opt(n): return sys.argv[sys.argv.index(n) + 1] if n in sys.argv else None
only, match = opt("--only"), opt("--match")
def sh(cmd): return subprocess.run(cmd, shell=True, capture_output=True, text=True)
assert sh("git -C /repo diff --quiet").returncode == 0, "/repo is dirty"
ids = sh(f"{ROOT}/harness/target-checked/release/verif list x").stdout.split()
rows = []
for d in sorted(glob.glob(f"{ROOT}/preserving/*/*")):
    if not os.path.isfile(d + "/patch.diff"): continue
    area, k = d.split("/")[-2:]
    if only and area != only: continue
    if match and match not in k: continue
    r = sh(f"git -C /repo apply {d}/patch.diff")
    if r.returncode != 0:
        rows.append((area, k, "PATCH DOES NOT APPLY", "")); continue
    res = {}
    try:
        t = sh("cd /repo && cargo test --offline --lib 2>&1 | grep '^test result' | head -1").stdout.strip()
        res["repo_tests"] = t
        for pid in ids:
            r = sh(f"cd {ROOT} && timeout 1800 ./check {pid} --tier quick")
            viol = [l.strip()[:300] for l in r.stdout.splitlines() if l.strip().startswith("violation [")]
            res[pid] = {"exit": r.returncode, "violations": viol, "stderr_tail": r.stderr[-300:] if r.returncode == 2 else ""}
    finally:
        sh("git -C /repo checkout -- .")
    alarms = [p for p in ids if res.get(p, {}).get("exit") != 0]
    json.dump(res, open(d + "/result.json", "w"), indent=1)
    rows.append((area, k, "silent" if not alarms else "ALARM " + ",".join(f"{p}(exit {res[p]['exit']})" for p in alarms), "; ".join(v for p in alarms for v in res[p]["violations"][:1])[:260]))
    print("%-5s %-3s %-40s %s" % rows[-1], flush=True)
print(sum(1 for r in rows if r[2] == "silent"), "of", len(rows), "silent")
