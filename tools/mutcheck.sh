#!/bin/bash
# tools/mutcheck.sh <patch.diff> <id> [<id>...] : applies the patch to /repo, runs the quick checks, reverts.
P="$1"; shift
cd /verif
git -C /repo diff --quiet || { echo "/repo is dirty; refusing"; exit 2; }
git -C /repo apply "$(realpath "$P")" || { echo "patch does not apply"; exit 2; }
for id in "$@"; do
  ./check "$id" --tier "${TIER:-quick}" > .scratch/mut-$id.out 2>&1; rc=$?
  echo "$id exit=$rc $(grep -c '^VIOLATION' .scratch/mut-$id.out) violation line(s): $(grep -m2 'violation \[' .scratch/mut-$id.out | cut -c1-260 | tr '\n' ' ')"
  [ $rc -eq 2 ] && tail -5 .scratch/mut-$id.out
done
git -C /repo checkout -- .
git -C /repo diff --quiet && echo "(reverted)"
