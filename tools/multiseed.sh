#!/bin/bash
# tools/multiseed.sh <seed>... : every quick check on the unchanged tree with several VERIF_SEED values; prints only non-zero exits
cd /verif
for seed in "$@"; do
  for id in $(harness/target-checked/release/verif list x); do
    VERIF_SEED=$seed ./check $id --tier quick > .scratch/ms-$id-$seed.out 2>&1; rc=$?
    [ $rc -ne 0 ] && { echo "seed=$seed $id exit=$rc"; grep -E "violation \[|INCONCLUSIVE" .scratch/ms-$id-$seed.out | head -3; }
  done
  echo "seed $seed done"
done
