#!/bin/bash
# Builds the harness (both arithmetic profiles) offline from files on disk.
set -e
cd "$(dirname "$0")"
exec ./check --build-only
